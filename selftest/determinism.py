#!/venv/bin/python
"""Determinism self-test (DESIGN section 7.1).

For a sample of (property, run index): execute the generated run twice in one process, once in a fresh interpreter,
once under other PYTHONHASHSEED values in fresh interpreters, and through the parallel runner at several worker counts;
the digest of the full event log + violations + final state fingerprints must be identical.

  selftest/determinism.py [--runs N] [--props C01,C08,...]
"""
from __future__ import annotations

import argparse
import json
import os
import subprocess
import sys

HERE = os.path.dirname(os.path.dirname(os.path.abspath(__file__)))
sys.path.insert(0, HERE)
os.chdir(HERE)

PROPS = ['C01', 'C02', 'C03', 'C04', 'C07', 'C08', 'C09', 'C10', 'C11', 'C15', 'C16', 'C17', 'C18', 'C19']


def digests(props, runs, seed, tier):
    from sim import env
    from sim import engines
    from sim.common import digest
    from sim.world import fingerprint
    out = {}
    for p in props:
        eng = engines.engine_for(p)
        known = eng.load_known()
        for r in runs:
            if p == 'C04' and r < 47:
                r = r + 47          # skip the (slow) enumeration corpus here; histories with faults are sampled instead
            rec, res = eng.run_generated(p, seed, r, tier, known=known)
            W = getattr(res, 'world', None) or getattr(res, 'W', None)
            state = []
            if W is not None:
                for name in sorted(W.reg):
                    state.append((name, [repr(fingerprint(W.rep, o)) for o in W.reg[name]]))
            out[f"{p}:{r}"] = digest([rec.get('events'), res.log, [v.to_json() for v in res.violations], state,
                                      sorted(res.stats.items()), sorted(repr(t) for t in res.sig)])
    return out


def main():
    ap = argparse.ArgumentParser()
    ap.add_argument('--runs', type=int, default=12)
    ap.add_argument('--props', default=','.join(PROPS))
    ap.add_argument('--seed', type=int, default=7)
    ap.add_argument('--tier', default='quick')
    ap.add_argument('--child', action='store_true')
    args = ap.parse_args()
    props = args.props.split(',')
    runs = list(range(args.runs))
    if args.child:
        from sim import env
        env.ensure_env()
        print(json.dumps(digests(props, runs, args.seed, args.tier)))
        return 0
    from sim import env
    env.ensure_env()
    a = digests(props, runs, args.seed, args.tier)
    b = digests(props, runs, args.seed, args.tier)
    bad = [k for k in a if a[k] != b[k]]
    print(f"same process twice: {len(a)} runs, {len(bad)} differ {bad[:5]}")
    fails = len(bad)
    for hs in ('0', '1', '4242'):
        envv = dict(os.environ, VERIF_HASHSEED=hs)
        envv.pop('PYTHONHASHSEED', None)
        envv.pop('VERIF_ENV_PINNED', None)
        cp = subprocess.run([sys.executable, os.path.abspath(__file__), '--child', '--runs', str(args.runs), '--props', args.props,
                             '--seed', str(args.seed), '--tier', args.tier], capture_output=True, text=True, env=envv)
        if cp.returncode != 0:
            print(cp.stderr[-2000:])
            return 2
        c = json.loads(cp.stdout.strip().splitlines()[-1])
        bad = [k for k in a if a[k] != c.get(k)]
        print(f"fresh interpreter, PYTHONHASHSEED={hs}: {len(bad)} differ {bad[:8]}")
        fails += len(bad)
    # worker-count independence of the runner's merged output
    from sim import runner
    for p in props[:4]:
        sigs = []
        for w in (1, 4, 16):
            res, _ = runner.run_batch(p, args.seed, 48, args.tier, workers=w)
            sigs.append([(r['run'], r.get('digest')) for r in res])
        ok = sigs[0] == sigs[1] == sigs[2]
        print(f"runner {p}: workers 1/4/16 {'agree' if ok else 'DIFFER'}")
        fails += 0 if ok else 1
    print("DETERMINISM", "OK" if not fails else f"FAILED ({fails})")
    return 0 if not fails else 1


if __name__ == '__main__':
    sys.exit(main())
