#!/venv/bin/python
"""Sensitivity self-test: apply a patch to a scratch copy of /repo (outside /repo and /verif), confirm the repository's
own tests still pass there, run the named checks against the copy (VERIF_REPO), report which ones turn red.

  selftest/mutant.py <patch.diff> [--props C01,C02 | --all] [--tier quick] [--runs N] [--keep]
"""
from __future__ import annotations

import argparse
import json
import os
import shutil
import subprocess
import sys
import tempfile
import time

HERE = os.path.dirname(os.path.dirname(os.path.abspath(__file__)))
ALL = ['C01', 'C02', 'C03', 'C04', 'C07', 'C08', 'C09', 'C10', 'C11', 'C15', 'C16', 'C17', 'C18', 'C19']


def main():
    ap = argparse.ArgumentParser()
    ap.add_argument('patch')
    ap.add_argument('--props', default=None)
    ap.add_argument('--all', action='store_true')
    ap.add_argument('--tier', default='quick')
    ap.add_argument('--runs', type=int, default=None)
    ap.add_argument('--seed', type=int, default=None)
    ap.add_argument('--keep', action='store_true')
    ap.add_argument('--skip-tests', action='store_true')
    ap.add_argument('--json', default=None)
    args = ap.parse_args()
    props = ALL if args.all or not args.props else args.props.split(',')
    scratch = tempfile.mkdtemp(prefix='pyplate-mutant-')
    repo = os.path.join(scratch, 'repo')
    out = {'patch': args.patch, 'results': {}}
    try:
        shutil.copytree('/repo', repo, ignore=shutil.ignore_patterns('.git', '__pycache__', '.benchmarks', 'docs', 'images'))
        cp = subprocess.run(['patch', '-p1', '-s', '-i', os.path.abspath(args.patch)], cwd=repo, capture_output=True, text=True)
        if cp.returncode != 0:
            print("PATCH DOES NOT APPLY:", cp.stdout[-500:], cp.stderr[-500:])
            return 2
        if not args.skip_tests:
            cp = subprocess.run(['/venv/bin/python', '-m', 'pytest', '-q', '-p', 'no:cacheprovider', '-x'], cwd=repo, capture_output=True, text=True)
            tail = cp.stdout.strip().splitlines()[-1] if cp.stdout.strip() else ''
            out['tests'] = tail
            print("repository tests on the mutant:", tail)
            if cp.returncode != 0:
                print("MUTANT REJECTED: the existing tests do not pass")
                return 3
        env = dict(os.environ, VERIF_REPO=repo)
        env.pop('VERIF_ENV_PINNED', None)
        if args.seed is not None:
            env['VERIF_SEED'] = str(args.seed)
        for p in props:
            t0 = time.time()
            cmd = ['/venv/bin/python', os.path.join(HERE, 'check.py'), p, '--tier', args.tier, '--evidence', os.path.join(scratch, f'ev-{p}.json')]
            if args.runs:
                cmd += ['--runs', str(args.runs)]
            cp = subprocess.run(cmd, cwd=HERE, capture_output=True, text=True, env=env)
            lines = cp.stdout.splitlines()
            viol = [ln for ln in lines if ln.startswith('violation ')]
            first = ''
            for i, ln in enumerate(lines):
                if ln.startswith('violation '):
                    first = ln[:160] + (' | ' + lines[i + 1].strip()[:260] if i + 1 < len(lines) else '')
                    break
            status = {0: 'green', 1: 'RED', 2: 'HARNESS-ERROR'}.get(cp.returncode, f'exit {cp.returncode}')
            out['results'][p] = {'status': status, 'n_keys': len(viol), 'first': first, 'wall_s': round(time.time() - t0, 1)}
            print(f"{p}: {status} ({len(viol)} keys, {time.time() - t0:.0f}s) {first}")
            if cp.returncode == 2:
                print(cp.stdout[-1500:], cp.stderr[-1500:])
    finally:
        if not args.keep:
            shutil.rmtree(scratch, ignore_errors=True)
        else:
            print("kept", scratch)
    if args.json:
        with open(args.json, 'w') as fh:
            json.dump(out, fh, indent=1)
    return 0


if __name__ == '__main__':
    sys.exit(main())
