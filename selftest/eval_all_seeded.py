#!/venv/bin/python
"""Re-evaluate every stored change under seeded/ with the current checks (4 at a time).

  selftest/eval_all_seeded.py [name-substring ...]

Each change is staged from seeded/<name>/{patch.diff, demo.py, meta.json} into a scratch directory and handed to
eval_seeded.py with the properties its meta.json lists under "checks".  Prints one line per change."""
from __future__ import annotations

import json
import os
import shutil
import subprocess
import sys
import tempfile
from concurrent.futures import ThreadPoolExecutor

HERE = os.path.dirname(os.path.dirname(os.path.abspath(__file__)))


def one(name):
    d = os.path.join(HERE, 'seeded', name)
    meta = json.load(open(os.path.join(d, 'meta.json')))
    stage = tempfile.mkdtemp(prefix='pyplate-stage-')
    try:
        shutil.copy(os.path.join(d, 'patch.diff'), os.path.join(stage, 'm1.diff'))
        shutil.copy(os.path.join(d, 'demo.py'), os.path.join(stage, 'm1_demo.py'))
        json.dump({'property': meta['property'], 'summary': meta.get('summary'), 'needs': meta.get('needs')}, open(os.path.join(stage, 'm1.json'), 'w'))
        props = ','.join(meta.get('checks', {}).keys()) or meta['property']
        cp = subprocess.run(['/venv/bin/python', os.path.join(HERE, 'selftest', 'eval_seeded.py'), stage, '1', '--name', name, '--props', props],
                            capture_output=True, text=True, cwd=HERE)
        lines = [ln for ln in cp.stdout.splitlines() if ln.strip() and 'conda' not in ln]
        conf = 'CONFIRMED' if any('-> CONFIRMED' in ln for ln in lines) else 'NOT-CONFIRMED'
        st = ' '.join(ln.split(':')[0].strip().split()[0] + '=' + ln.split(':')[1].split()[0] for ln in lines if ln.startswith('   ') and '[' in ln)
        return f"{name}: {conf} {st}"
    finally:
        shutil.rmtree(stage, ignore_errors=True)


def main():
    names = sorted(os.listdir(os.path.join(HERE, 'seeded')))
    if sys.argv[1:]:
        names = [n for n in names if any(s in n for s in sys.argv[1:])]
    with ThreadPoolExecutor(4) as ex:
        for line in ex.map(one, names):
            print(line, flush=True)


if __name__ == '__main__':
    main()
