#!/venv/bin/python
"""Writes MANIFEST.json from one table, so that it stays consistent."""
import json, os
HERE = os.path.dirname(os.path.dirname(os.path.abspath(__file__)))
PY = '/venv/bin/python'

CHECKS = {
 'C01': ('A', 'exploration', '5', 'seeded simulated histories on the real library; per-substance ledger over all operands before/after every successful transfer (real objects alone) + locality of wells not addressed; one run in seven is a recipe program of transfers only: totals over all declared objects before vs after bake, wells no step addresses unchanged', 'deterministic simulation: seeded operation histories with stale-version reuse, conservation ledger invariant after every event'),
 'C02': ('A', 'exploration', '5', 'every successful transfer of every run is compared, per well and per substance, with the exact-rational model step taken from the abstraction of the real pre-state (uniform fraction, size in the unit of q, paired destination gain, n*q for broadcasts)', 'deterministic simulation: seeded histories and long transfer chains checked step by step against an exact reference model'),
 'C03': ('A', 'exploration', '5', 'requests are aimed at both sides of every feasibility boundary the model computes from the current state (source content in each unit, free capacity of each destination well, current quantity, current concentration); decision table must-accept / must-refuse(ValueError) / do-not-care band; impossible-state invariant on every returned object', 'deterministic simulation: boundary-biased infeasible requests as the fault sequence, model-decided accept/refuse oracle'),
 'C04': ('C04', 'fault_enumeration', '5', 'complete enumeration of fault instants (injected KeyboardInterrupt / MemoryError at every traced line event of pyplate/*.py, MemoryError from every deepcopy call) for a fixed corpus of 47 operations covering every op kind and pairing form incl. naturally failing part-way ones and operations that have nothing to do, plus seeded histories with faults at seeded instants; after every event and every fault the value fingerprint of every live object, argument and slice, and the module config, must be unchanged, and the fault-free retry must equal the dry run', 'deterministic simulation with fault injection: sys.settrace line-level exception injection and failing-deepcopy seam, enumerated over all instants for a corpus and sampled along seeded histories; structural fingerprints of all live objects as the invariant'),
 'C07': ('A', 'exploration', '5', 'differential oracle: every plate/slice operation is re-executed well by well through the container-level API of the real library on free-standing copies and compared; wells not addressed must be fingerprint-identical; pairing rules from an independent selector model', 'deterministic simulation: seeded histories over plate geometries with a per-well differential oracle'),
 'C08': ('B', 'exploration', '5', 'refinement check: every seeded recipe program is executed on the real Recipe and, step by step, through the direct container/plate API (eager reference); after bake the returned dictionary must have exactly the declared and created names and every value must equal the eager fold (contents, volume, capacity, name); before bake every declared object held by the recipe must still equal its declaration; if the eager fold succeeds bake must succeed', 'deterministic simulation: seeded interleavings of intent threads over shared objects, bake() checked as a refinement of eager execution'),
 'C09': ('B', 'exploration', '5', 'every get_substance_used answer (seeded substances x stages x destination subsets x units) is compared with an independent per-step ledger: model snapshots of the eager reference at every step boundary plus the amounts each remove step discarded; net decrease must raise ValueError; consecutive stages must add up', 'deterministic simulation: seeded recipe programs with stage partitions, ledger oracle over the recorded history'),
 'C15': ('B', 'exploration', '5', 'get_container_flows and get_amount_remaining (containers and plates, per well) are compared with the ledger by role of each step (created / source / destination / both / topped up / washed); flows non-negative; in - out = change of amount remaining', 'deterministic simulation: seeded recipe programs, ledger oracle by step role'),
 'C16': ('B', 'exploration', '5', 'call histories over the whole Recipe API incl. illegal calls, refused bakes and calls after bake are executed beside a small reference state machine (declared, used, open stage, stage names, locked) that predicts accept / reject / RuntimeError for each call; after a successful bake len(steps), results, stages and a fixed panel of tracking answers are re-read after every further call and must not change', 'deterministic simulation: seeded API call histories checked call by call against a reference state machine'),
 'C10': ('A', 'exploration', '5', 'after every state-changing event of every run the stored volume is compared with the volumes of the contents, and a seeded panel of observers (get_volume, get_concentration, get_volumes, get_moles, get_substances, Plate.get_volume) is compared with the definition evaluated in exact arithmetic on the abstraction of the real contents', 'deterministic simulation: observers read after every event of seeded histories, compared with an exact model'),
 'C11': ('A', 'exploration', '5', 'post-condition after every dilute / fill_to event on states reached by seeded histories: only the solvent grew, target met in its own unit (model arithmetic on the real result), capacity respected, infeasible targets refused', 'deterministic simulation (history part): post-conditions on reachable states against an exact model'),
 'C17': ('A', 'exploration', '5', 'after every remove event: selected substances absent from every addressed well, every other amount bit-identical, volume equals the remaining contents, wells not addressed identical; per-well differential against Container.remove', 'deterministic simulation: seeded histories with remove events, model filter oracle'),
 'C18': ('C', 'exploration', '5', 'the same seeded script (bench history or recipe program with tracking queries) is executed on 3-5 replicas of the library loaded in one process through the real PYPLATE_CONFIG -> pyplate.yaml loader with different moles/volume storage units and internal precision; replicas must agree on every accept/refuse decision, on contents / volume / capacity in user units, on a panel of observer answers, on bake() results and tracking answers, within the coarsest replica\'s rounding; an oracle violation that appears only under a non-shipped configuration is also reported', 'deterministic simulation: N differently configured replicas of the library driven by one seeded script, cross-replica agreement oracle'),
 'C19': ('A', 'exploration', '5', 'every instruction line appended by a container operation and every RecipeStep.instructions of a baked recipe is parsed back to (amount, unit, substance / vessel) and compared, within the displayed precision, with the amounts the simulator recorded for that event (model step / ledger delta); earlier instruction text must survive as a prefix; every call of the two rescaling helpers made during the runs is monitored (value x prefix out must denote the same physical amount as in)', 'deterministic simulation (history part): monitor of the instruction log and of the rescaling helpers against the simulator\'s own record along seeded histories'),
}

NOT_APPLICABLE = {
 'C05': 'pure function of one call (assemble and solve a linear system): no history, schedule, clock, I/O or fault for a simulator to vary; generating inputs for it would be property-based testing, not simulation (DESIGN.md section 5)',
 'C06': 'pure arithmetic over (substance, amount, two unit strings); configurations are static parameters, nothing to schedule or fault (DESIGN.md section 5)',
 'C12': 'pure function of (stock, arguments): a 2x2 solve followed by two transfers; the transfers themselves are covered as transfers by C01-C03 (DESIGN.md section 5)',
 'C13': 'pure mapping selector -> wells, and the property asks for complete enumeration of small plates, i.e. bounded exhaustive checking (model-checking family), not seeded simulation (DESIGN.md section 5)',
 'C14': 'pure string -> value parsing; no state, schedule or fault (DESIGN.md section 5)',
}


def main():
    checks = []
    for pid, (eng, level, ref, text, tech) in sorted(CHECKS.items()):
        checks.append({
            'property_id': pid,
            'quick_cmd': f'{PY} check.py {pid} --tier quick',
            'thorough_cmd': f'{PY} check.py {pid} --tier thorough',
            'evidence_file': f'evidence/{pid}.json',
            'replay_cmd_template': f'{PY} check.py {pid} --replay {{path}}',
            'engine': {'C01': 'A+B', 'C03': 'A+B', 'C07': 'A+B', 'C17': 'A+B', 'C19': 'A+B'}.get(pid, eng),
            'level_claimed': {'category': level, 'text': text, 'design_ref': f'DESIGN.md section {ref} ({pid})'},
            'level_note': 'seeded sampling of histories, not proof; trusted base: the exact reference model (sim/model.py, written from the documentation), the tolerances of DESIGN.md section 3, CPython/numpy; nothing is claimed outside the workload bounds stated there',
            'technique': tech,
        })
    doc = {
        'version': 1,
        'setup_cmd': f'{PY} check.py --selfcheck',
        'hooks': {
            'guard': 'PYPLATE_VERIF',
            'enable': 'no hooks in /repo: every seam is taken from outside (sys.settrace, patched pyplate.pyplate.deepcopy, PYPLATE_CONFIG, sys.modules); the guard name is reserved and unused',
            'baseline_off_cmd': 'cd /repo && /venv/bin/python -m pytest -ra -q -p no:cacheprovider --timeout=900 --continue-on-collection-errors',
            'source_commits': [],
            'add_only': True,
        },
        'engines': [
            {'name': 'A', 'path': 'sim/engine_a.py', 'serves_properties': sorted(p for p, c in CHECKS.items() if c[0] == 'A'),
             'kind_free_text': 'bench: seeded histories of direct-API operations on real objects, mirrored on an exact model'},
            {'name': 'B', 'path': 'sim/engine_b.py', 'serves_properties': ['C08', 'C09', 'C15', 'C16', 'C01', 'C03', 'C07', 'C17', 'C19'],
             'kind_free_text': 'recipe programs: seeded Recipe API call histories beside an eager reference, a per-step ledger and a life-cycle reference machine'},
            {'name': 'C', 'path': 'sim/engine_c.py', 'serves_properties': ['C18'],
             'kind_free_text': 'configuration replicas: the same seeded script on several copies of the library loaded under different pyplate.yaml files'},
            {'name': 'C04', 'path': 'sim/engine_c04.py', 'serves_properties': ['C04'],
             'kind_free_text': 'fault injector: enumeration of all fault instants for a corpus + seeded histories with faults (sim/faults.py)'},
        ],
        'checks': checks,
        'not_applicable': [{'property_id': k, 'reason': v} for k, v in sorted(NOT_APPLICABLE.items())],
        'notes': 'See DESIGN.md. Genuine defects repaired in /repo are listed as fixed: entries in known_findings.json with their witnesses under findings/fixed/.',
    }
    with open(os.path.join(HERE, 'MANIFEST.json'), 'w') as fh:
        json.dump(doc, fh, indent=1)
    try:
        import jsonschema
        jsonschema.validate(doc, json.load(open('/root/.vp/MANIFEST.schema.json')))
        print('MANIFEST.json valid')
    except ImportError:
        print('MANIFEST.json written (jsonschema not available here)')


if __name__ == '__main__':
    main()
