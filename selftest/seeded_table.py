#!/venv/bin/python
"""Markdown table of /verif/seeded/*/meta.json (which checks catch which independently written changes)."""
import glob, json, os
HERE = os.path.dirname(os.path.dirname(os.path.abspath(__file__)))
rows = []
for path in sorted(glob.glob(os.path.join(HERE, 'seeded', '*', 'meta.json'))):
    m = json.load(open(path))
    checks = '; '.join(f"{p}: {v['status']}" for p, v in sorted(m.get('checks', {}).items()))
    first = ''
    for p, v in sorted(m.get('checks', {}).items()):
        if v.get('status') == 'RED':
            fv = v.get('first_violation', '')
            first = fv.split("'")[3] if fv.count("'") >= 4 else ''
            break
    note = m.get('history', '')
    rows.append(f"| {m['id']} | {(m.get('summary') or '')[:150].replace('|', '/')} | {(m.get('needs') or '')[:130].replace('|', '/')} | {checks} | {first} | {note} |")
print("| id | change | needs | quick check | first clause | history |")
print("|----|--------|-------|-------------|--------------|---------|")
print("\n".join(rows))
