#!/venv/bin/python
"""Confirm and evaluate one change delivered by an independent sub-agent.

  selftest/eval_seeded.py <dir with mK.diff, mK_demo.py, mK.json> <K> [--props C01,C02] [--tier quick]

Steps (all in a scratch copy of /repo outside /repo and /verif, removed afterwards):
  1. the demo exits 0 on the unchanged copy;
  2. the patch applies; the repository's 80 tests pass with it;
  3. the demo exits 1 with it;
  4. the named checks (default: the property the change targets) are run against the patched copy.
The change is stored under /verif/seeded/<prop>-m<K>/ (patch.diff, demo.py, meta.json)."""
from __future__ import annotations

import argparse
import json
import os
import shutil
import subprocess
import sys
import tempfile
import time

HERE = os.path.dirname(os.path.dirname(os.path.abspath(__file__)))


def run(cmd, cwd, env=None, timeout=3600):
    return subprocess.run(cmd, cwd=cwd, capture_output=True, text=True, env=env, timeout=timeout)


def main():
    ap = argparse.ArgumentParser()
    ap.add_argument('dir')
    ap.add_argument('k')
    ap.add_argument('--props', default=None)
    ap.add_argument('--tier', default='quick')
    ap.add_argument('--name', default=None)
    args = ap.parse_args()
    k = args.k
    d = os.path.abspath(args.dir)
    meta_in = json.load(open(os.path.join(d, f'm{k}.json')))
    prop = meta_in.get('property')
    props = args.props.split(',') if args.props else [prop]
    name = args.name or f"{prop}-m{k}"
    scratch = tempfile.mkdtemp(prefix='pyplate-seeded-')
    repo = os.path.join(scratch, 'repo')
    meta = {'id': name, 'property': prop, 'summary': meta_in.get('summary'), 'needs': meta_in.get('needs'),
            'source': 'independent sub-agent given only the property text and a scratch worktree', 'confirmed': {}, 'checks': {}}
    try:
        shutil.copytree('/repo', repo, ignore=shutil.ignore_patterns('.git', '__pycache__', '.benchmarks', 'docs', 'images'))
        demo = os.path.join(d, f'm{k}_demo.py')
        patch = os.path.join(d, f'm{k}.diff')
        envd = dict(os.environ, PYTHONPATH=repo, PYPLATE_CONFIG='')
        envd.pop('PYPLATE_CONFIG')
        cp = run(['/venv/bin/python', demo], repo, envd)
        meta['confirmed']['demo_exit_unchanged'] = cp.returncode
        cp = run(['patch', '-p1', '-s', '-i', patch], repo)
        meta['confirmed']['patch_applies'] = cp.returncode == 0
        if cp.returncode != 0:
            print("patch does not apply", cp.stdout[-300:], cp.stderr[-300:])
            print(json.dumps(meta, indent=1))
            return 2
        cp = run(['/venv/bin/python', '-m', 'pytest', '-q', '-p', 'no:cacheprovider'], repo)
        meta['confirmed']['tests_with_change'] = cp.stdout.strip().splitlines()[-1] if cp.stdout.strip() else f'exit {cp.returncode}'
        tests_ok = cp.returncode == 0
        cp = run(['/venv/bin/python', demo], repo, envd)
        meta['confirmed']['demo_exit_with_change'] = cp.returncode
        meta['confirmed']['demo_output_with_change'] = (cp.stdout + cp.stderr).strip()[-400:]
        ok = tests_ok and meta['confirmed']['demo_exit_unchanged'] == 0 and meta['confirmed']['demo_exit_with_change'] == 1
        meta['confirmed']['all'] = ok
        print(f"{name}: tests={meta['confirmed']['tests_with_change']!r} demo unchanged={meta['confirmed']['demo_exit_unchanged']} "
              f"with change={meta['confirmed']['demo_exit_with_change']} -> {'CONFIRMED' if ok else 'NOT CONFIRMED'}")
        env = dict(os.environ, VERIF_REPO=repo)
        env.pop('VERIF_ENV_PINNED', None)
        for p in props:
            t0 = time.time()
            cp = run(['/venv/bin/python', os.path.join(HERE, 'check.py'), p, '--tier', args.tier, '--evidence', os.path.join(scratch, f'ev-{p}.json')], HERE, env)
            lines = cp.stdout.splitlines()
            first = ''
            for i, ln in enumerate(lines):
                if ln.startswith('violation '):
                    first = ln[:140] + ' | ' + (lines[i + 1].strip()[:300] if i + 1 < len(lines) else '')
                    break
            status = {0: 'green', 1: 'RED', 2: 'HARNESS-ERROR'}.get(cp.returncode, f'exit {cp.returncode}')
            meta['checks'][p] = {'tier': args.tier, 'status': status, 'first_violation': first, 'wall_s': round(time.time() - t0, 1)}
            print(f"   {p} [{args.tier}]: {status} {first[:300]}")
            if cp.returncode == 2:
                print(cp.stdout[-1200:], cp.stderr[-800:])
        out = os.path.join(HERE, 'seeded', name)
        os.makedirs(out, exist_ok=True)
        shutil.copy(patch, os.path.join(out, 'patch.diff'))
        shutil.copy(demo, os.path.join(out, 'demo.py'))
        old = {}
        if os.path.exists(os.path.join(out, 'meta.json')):
            old = json.load(open(os.path.join(out, 'meta.json')))
            for p, v in old.get('checks', {}).items():
                meta['checks'].setdefault(p, v)
            for fld in ('history', 'first_evaluation'):
                if fld in old:
                    meta[fld] = old[fld]
        if 'first_evaluation' not in meta:
            meta['first_evaluation'] = {p: v['status'] for p, v in meta['checks'].items()}
        meta['what_was_run'] = ("selftest/eval_seeded.py: demo on unchanged scratch copy (exit 0), patch -p1, repository tests "
                                "(must pass), demo with the change (exit 1), then check.py <property> against the patched copy via VERIF_REPO")
        with open(os.path.join(out, 'meta.json'), 'w') as fh:
            json.dump(meta, fh, indent=1)
    finally:
        shutil.rmtree(scratch, ignore_errors=True)
    return 0


if __name__ == '__main__':
    sys.exit(main())
