"""Pinning of every input the library reads from its environment, and loading of library replicas.

Seams (DESIGN §1.3): PYTHONHASHSEED (re-exec), PYPLATE_CONFIG / HOME / cwd (config discovery),
sys.modules (several independently configured copies of the library in one process).
"""
from __future__ import annotations

import importlib
import os
import shutil
import sys
import tempfile

VERIF_DIR = os.path.dirname(os.path.dirname(os.path.abspath(__file__)))
REPO = os.environ.get('VERIF_REPO', '/repo')
HASHSEED = os.environ.get('VERIF_HASHSEED', '0')

SHIPPED = {
    'internal_precision': 10,
    'precisions': {'default': 3, 'uL': 0, 'umol': 1, 'mg': 1},
    'volume_storage_unit': 'uL', 'volume_display_unit': 'uL',
    'moles_storage_unit': 'umol', 'moles_display_unit': 'umol',
    'concentration_display_unit': 'M',
    'default_solid_density': 1, 'default_enzyme_density': 1,
    'default_weight_volume_units': 'g/mL',
    'default_colormap': 'Purples', 'default_diverging_colormap': 'PuOr',
}


def ensure_env(argv=None):
    """Re-exec the interpreter with the pinned hash seed and a neutral HOME/cwd if needed."""
    if os.environ.get('PYTHONHASHSEED') != HASHSEED or os.environ.get('VERIF_ENV_PINNED') != '1':
        env = dict(os.environ)
        env['PYTHONHASHSEED'] = HASHSEED
        env['VERIF_ENV_PINNED'] = '1'
        env['PYTHONDONTWRITEBYTECODE'] = '1'
        env.setdefault('OMP_NUM_THREADS', '1')
        env.setdefault('OPENBLAS_NUM_THREADS', '1')
        env.setdefault('MKL_NUM_THREADS', '1')
        os.execve(sys.executable, [sys.executable] + (argv if argv is not None else sys.argv), env)


_scratch = None


def scratch_dir():
    """Per-process-tree scratch directory (removed at exit by the top-level process)."""
    global _scratch
    if _scratch is None:
        d = os.environ.get('VERIF_SCRATCH')
        if d and os.path.isdir(d):
            _scratch = d
        else:
            _scratch = tempfile.mkdtemp(prefix='pyplate-verif-')
            os.environ['VERIF_SCRATCH'] = _scratch
            os.makedirs(os.path.join(_scratch, 'home'), exist_ok=True)
            import atexit
            pid = os.getpid()
            atexit.register(lambda: os.getpid() == pid and shutil.rmtree(_scratch, ignore_errors=True))
    return _scratch


def yaml_text(cfg: dict) -> str:
    lines = []
    for k, v in cfg.items():
        if isinstance(v, dict):
            lines.append(f"{k}:")
            for kk, vv in v.items():
                lines.append(f"  {kk}: {vv}")
        else:
            lines.append(f"{k}: {v}")
    return "\n".join(lines) + "\n"


def write_config(cfg: dict, tag: str) -> str:
    """Write cfg as <scratch>/<tag>/pyplate.yaml, return the directory (a PYPLATE_CONFIG value)."""
    # one directory per process: forked workers share the scratch tree and must not see each other's half-written files
    d = os.path.join(scratch_dir(), f'cfg-{os.getpid()}-{tag}')
    os.makedirs(d, exist_ok=True)
    path = os.path.join(d, 'pyplate.yaml')
    with open(path + '.tmp', 'w') as fh:
        fh.write(yaml_text(cfg))
    os.replace(path + '.tmp', path)
    return d


class Replica:
    """One loaded copy of the library (own config object, own classes, own memo tables)."""

    def __init__(self, pkg, core, slicer, cfg, tag):
        self.pkg = pkg
        self.core = core        # pyplate.pyplate module
        self.slicer = slicer
        self.cfg = cfg          # the dict written to YAML (what the model may read)
        self.tag = tag
        self.Substance = core.Substance
        self.Container = core.Container
        self.Plate = core.Plate
        self.Recipe = core.Recipe
        self.Unit = core.Unit
        self.PlateSlicer = core.PlateSlicer
        self.config = core.config

    def clear_caches(self):
        """Clear every functools cache reachable from the library's modules and classes (not only the ones known today),
        so that a run never depends on earlier runs of the same worker process."""
        seen = set()
        for mod in (self.core, self.slicer, self.pkg):
            for name, obj in list(vars(mod).items()):
                objs = [obj]
                if isinstance(obj, type) and getattr(obj, '__module__', '').startswith('pyplate'):
                    objs += [v for v in vars(obj).values()]
                for o in objs:
                    f = getattr(o, '__func__', o)
                    if id(f) in seen:
                        continue
                    seen.add(id(f))
                    cc = getattr(f, 'cache_clear', None)
                    if callable(cc):
                        try:
                            cc()
                        except Exception:
                            pass


_replicas = {}


def _purge():
    for k in [k for k in sys.modules if k == 'pyplate' or k.startswith('pyplate.')]:
        del sys.modules[k]


def load_replica(cfg: dict = None, tag: str = 'shipped') -> Replica:
    """Import a fresh copy of pyplate from REPO under the given configuration, through the real loader."""
    if tag in _replicas:
        return _replicas[tag]
    if cfg is None:
        config_dir = os.path.join(REPO, 'pyplate')   # the packaged file, found through the same search path
        import yaml
        with open(os.path.join(config_dir, 'pyplate.yaml')) as fh:
            cfg = yaml.safe_load(fh)                 # the model reads the YAML itself, not pyplate.config
    else:
        config_dir = write_config(cfg, tag)
    sd = scratch_dir()
    os.environ['HOME'] = os.path.join(sd, 'home')
    os.environ['PYPLATE_CONFIG'] = config_dir
    if sys.path[0] != REPO:
        if REPO in sys.path:
            sys.path.remove(REPO)
        sys.path.insert(0, REPO)
    if os.path.exists(os.path.join(os.getcwd(), 'pyplate.yaml')):
        raise RuntimeError("cwd contains pyplate.yaml; config discovery would not be pinned")
    _purge()
    pkg = importlib.import_module('pyplate')
    core = sys.modules['pyplate.pyplate']
    slicer = sys.modules['pyplate.slicer']
    if not os.path.abspath(core.__file__).startswith(os.path.abspath(REPO) + os.sep):
        raise RuntimeError(f"pyplate imported from {core.__file__}, expected under {REPO}")
    _purge()
    rep = Replica(pkg, core, slicer, cfg, tag)
    _replicas[tag] = rep
    return rep
