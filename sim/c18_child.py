"""C18, thorough tier: one replica in its *own interpreter*, configured only through the environment
(PYPLATE_CONFIG), as the property's observation point says.  Prints a digest of the answers of a bench script.

  python -m sim.c18_child <record.json> <cfg index>      (cwd = /verif)
"""
from __future__ import annotations

import json
import os
import sys


def answers_digest(answers):
    from .common import digest

    def enc(x):
        from fractions import Fraction
        if isinstance(x, Fraction):
            return repr(float(x))
        if isinstance(x, dict):
            return {k: enc(v) for k, v in x.items()}
        if isinstance(x, (list, tuple)):
            return [enc(v) for v in x]
        if isinstance(x, float):
            return repr(x)
        return x
    return digest(enc([(a['out'], a['named']) for a in answers]))


def main():
    path, idx = sys.argv[1], int(sys.argv[2])
    with open(path) as fh:
        record = json.load(fh)
    cfg = record['cfgs'][idx]
    from . import env
    # no re-exec games here beyond the hash seed: the library is imported the ordinary way
    if os.environ.get('PYTHONHASHSEED') != env.HASHSEED:
        envv = dict(os.environ, PYTHONHASHSEED=env.HASHSEED)
        os.execve(sys.executable, [sys.executable, '-m', 'sim.c18_child'] + sys.argv[1:], envv)
    d = env.write_config(cfg, 'child')
    os.environ['PYPLATE_CONFIG'] = d
    os.environ['HOME'] = os.path.join(env.scratch_dir(), 'home')
    sys.path.insert(0, env.REPO)
    import pyplate                                   # noqa: E402  (the ordinary import, in this interpreter only)
    core = sys.modules['pyplate.pyplate']
    assert os.path.abspath(core.__file__).startswith(os.path.abspath(env.REPO) + os.sep), core.__file__
    rep = env.Replica(pyplate, core, sys.modules['pyplate.slicer'], cfg, 'child')
    from .engine_c import AnswerBench
    b = AnswerBench(rep, record['subs'], known=None, obs=False)
    for ev in record['events']:
        b.step(ev)
    print(json.dumps({'digest': answers_digest(b.answers), 'n': len(b.answers), 'file': core.__file__}))


if __name__ == '__main__':
    main()
