"""Engine B: one simulated run = a seeded recipe program (API call history) executed on the real Recipe beside the
eager reference, the ledger and the life-cycle machine."""
from __future__ import annotations

from . import env
from .common import derive_rng
from .gen_a import gen_substances
from .gen_b import GenB
from .recipe_exec import RecipeRun

STEP_W = {'transfer': 10, 'remove': 2, 'fill_to': 2, 'dilute': 1.5, 'new_container': 1.5, 'solution': 1.5, 'solution_from': 0.8}

PROFILES = {
    'C08': {'step_w': dict(STEP_W, solution=2.5, dilute=2), 'p_illegal': 0.06, 'p_infeasible': 0.02, 'p_stage': 0.15, 'post': (0, 1), 'steps': (3, 14)},
    'C09': {'step_w': dict(STEP_W, remove=3.5, solution=2.5), 'p_container_solvent': 0.6, 'p_illegal': 0.07, 'p_infeasible': 0.0, 'p_stage': 0.45, 'post': (0, 0), 'steps': (3, 12)},
    'C15': {'step_w': dict(STEP_W, remove=3, fill_to=3, solution=2.5), 'p_container_solvent': 0.6, 'p_illegal': 0.07, 'p_infeasible': 0.0, 'p_stage': 0.45, 'post': (0, 0), 'steps': (3, 12)},
    'C16': {'step_w': STEP_W, 'p_illegal': 0.3, 'p_infeasible': 0.04, 'p_stage': 0.3, 'post': (1, 5), 'steps': (1, 8), 'p_unused': 0.12, 'p_substance_named_vessel': 0.3},
    'C17': {'step_w': dict(STEP_W, remove=8), 'p_illegal': 0.05, 'p_infeasible': 0.0, 'p_stage': 0.5, 'post': (0, 0), 'steps': (3, 10), 'stage_single_remove': True},
    'C19': {'step_w': dict(STEP_W, fill_to=4, dilute=3, new_container=2.5), 'p_illegal': 0.03, 'p_infeasible': 0.0, 'p_stage': 0.1, 'post': (0, 0), 'steps': (3, 10)},
    'C04': {'step_w': STEP_W, 'p_illegal': 0.1, 'p_infeasible': 0.1, 'p_stage': 0.2, 'post': (0, 2), 'steps': (2, 8)},
    'C03': {'step_w': STEP_W, 'p_illegal': 0.06, 'p_infeasible': 0.5, 'p_stage': 0.1, 'post': (0, 0), 'steps': (2, 8)},
    # transfers only: what the recipe moves is conserved over all declared objects, and wells no step addresses keep their contents
    'C01': {'step_w': {'transfer': 1}, 'p_illegal': 0.03, 'p_infeasible': 0.0, 'p_stage': 0.1, 'post': (0, 0), 'steps': (2, 9), 'p_subslice': 0.3,
            'p_top_up': 0.0},
    'C02': {'step_w': {'transfer': 1}, 'p_illegal': 0.02, 'p_infeasible': 0.0, 'p_stage': 0.1, 'post': (0, 0), 'steps': (2, 9), 'p_subslice': 0.3,
            'p_top_up': 0.0},
    'C07': {'step_w': dict(STEP_W, transfer=10, remove=4, fill_to=4, dilute=0.3, solution=0.5, solution_from=0.2), 'p_illegal': 0.03, 'p_infeasible': 0.0, 'p_stage': 0.1, 'post': (0, 0), 'steps': (2, 8)},
}


def make_profile(prop, rng, tier):
    base = PROFILES.get(prop, PROFILES['C08'])
    p = dict(base)
    p['prop'] = prop
    p['step_w'] = dict(p['step_w'])
    for op in list(p['step_w']):
        if p['step_w'][op] < 2 and rng.random() < 0.25:
            p['step_w'][op] = 0
    if not any(p['step_w'].values()):
        p['step_w']['transfer'] = 1
    p['op_w'] = p['step_w']
    p['magnitude'] = rng.choices(['nL-uL', 'uL-mL', 'mL-L'], weights=[1, 6, 2])[0]
    p['round_numbers'] = rng.random() < 0.5
    p['plate_size'] = rng.choices(['small', 'medium'], weights=[12, 2])[0]
    p['cache_policy'] = rng.choice(['never', 'always', 'random'])
    # recipes: mostly feasible requests
    p['q_w'] = [12, 0.6, 0.2, 0.15, 0.15, 0.05, 0.3, 0.6]
    p['fill_w'] = [12, 0.3, 0.1, 0.1, 0.3, 0.3, 0.1, 0.2, 0.02, 0.02]
    p['dil_w'] = [8, 3, 0.3, 0.1, 0.5]
    p['cap_w'] = [3, 6, 1, 0.5, 0.1, 0.02]
    p['stale_p'] = 0.0
    p['list_w'] = rng.choice([1, 1, 3, 6])       # some programs address wells mostly by lists
    p['shadow'] = rng.random() < 0.12            # a second Recipe object receives the same calls, interleaved
    p['p_trace'] = rng.choice([0.03, 0.03, 0.4])    # some programs work with trace components (nanomolar and below)
    p['allow_rename'] = prop in ('C09', 'C15', 'C17') and rng.random() < 0.3
    p['same_plate_p'] = 0.35
    lo, hi = p['steps']
    if tier == 'thorough':
        hi = hi + 4
    if p['plate_size'] == 'medium':
        hi = max(lo, hi - 4)
    p['n_steps'] = rng.randint(lo, hi)
    return p


def run_generated(prop, seed, run_idx, tier, known=None):
    rep = env.load_replica()
    rep.clear_caches()
    rng = derive_rng(seed, prop + ':B', run_idx)
    profile = make_profile(prop, rng, tier)
    subs = gen_substances(rng, profile)
    run = RecipeRun(rep, subs, known, profile)
    g = GenB(rng, run, profile)
    g.use_bench(True)
    prelude = []
    for ev in g.prelude():
        prelude.append(ev)
        run.bench.step(ev)
    for ev in g.prelude_fill():
        prelude.append(ev)
        run.bench.step(ev)
    g.use_bench(False)
    calls = []

    def emit(c):
        calls.append(c)
        return run.do_call(c)

    # ---- declaration
    objs = list(run.W.names())
    rng.shuffle(objs)
    if len(objs) > 2 and rng.random() < 0.35:
        g.undeclared = [objs.pop()]
    late = []
    if len(objs) > 2 and rng.random() < 0.25:
        late = [objs.pop()]          # declared later, in the middle of the program
    if rng.random() < 0.5:
        emit({'c': 'uses', 'objs': objs, 'aslist': rng.random() < 0.3})
    else:
        k = rng.randint(1, len(objs))
        emit({'c': 'uses', 'objs': objs[:k]})
        if objs[k:]:
            emit({'c': 'uses', 'objs': objs[k:]})
    # ---- steps
    stage_left = 0
    tries = 0
    while len(run.steps) < profile['n_steps'] and run.eager_ok and tries < profile['n_steps'] * 6:
        tries += 1
        if rng.random() < profile['p_illegal']:
            c = g.illegal_call()
            if c is not None:
                rec = emit(c)
                while g.followups:
                    f = g.followups.pop(0)
                    if rec.get('out') != 'ok':      # the corrected request follows only a request that was refused
                        emit(f)
                continue
        if late and rng.random() < 0.3:
            emit({'c': 'uses', 'objs': [late.pop()]})
        lc = run.lc
        if lc.open_stage is None and rng.random() < profile['p_stage']:
            sname = g.new_stage_name()
            emit({'c': 'start_stage', 'name': sname})
            stage_left = 1 if profile.get('stage_single_remove') and rng.random() < 0.6 else rng.randint(1, 4)
            if rng.random() < 0.12:
                # an empty stage: closed at once, or left open (bake closes it); its name stays taken either way
                if rng.random() < 0.6:
                    emit({'c': 'end_stage', 'name': sname})
                    if rng.random() < 0.5:
                        emit({'c': 'start_stage', 'name': sname})      # must be refused: the name is taken
                    continue
        prefer = 'remove' if (profile.get('stage_single_remove') and lc.open_stage is not None and stage_left == 1 and rng.random() < 0.8) else None
        c = g.gen_step(prefer)
        if c is None:
            continue
        out = run.try_eager(c)
        if out[0] != 'ok' and rng.random() >= profile['p_infeasible']:
            continue
        emit(c)
        if lc.open_stage is not None:
            stage_left -= 1
            if stage_left <= 0 and rng.random() < 0.85:
                emit({'c': 'end_stage', 'name': lc.open_stage})
    for n in late:
        emit({'c': 'uses', 'objs': [n]})
    # ---- make sure every declared object is used (unless deliberately not)
    leave_unused = rng.random() < profile.get('p_unused', 0.03)
    if run.eager_ok and leave_unused and run.lc.unused() and rng.random() < 0.6:
        # the unused object is mentioned only by a malformed (rejected) call: that is not a use
        c = g.bad_args_call(run.lc.unused()[0])
        if c is not None:
            emit(c)
    if run.eager_ok and not leave_unused:
        for n in list(run.lc.unused()):
            for _ in range(8):
                c = g.step_using(n)
                if c is None:
                    break
                if run.try_eager(c)[0] == 'ok':
                    emit(c)
                    break
    if run.lc.open_stage is not None and rng.random() < 0.5:
        emit({'c': 'end_stage', 'name': run.lc.open_stage})
    pre = []
    if run.steps and rng.random() < profile.get('p_pre_queries', 0.15):
        from . import tracking
        used_names = sorted(set().union(*[s['uses'] for s in run.steps]) & set(run.handles))
        closed = sorted(run.lc.stages) + ['all']
        for _ in range(rng.randint(1, 3)):
            if used_names:
                pre.append({'c': 'q_pre', 'obj': rng.choice(used_names), 'tf': rng.choice(closed), 'unit': rng.choice(tracking.FLOW_UNITS)})
        for q in pre:
            emit(q)
    emit({'c': 'bake'})
    if prop == 'C16' and run.bake_failed and run.baked is None and not run.recipe.locked and run.eager_ok and rng.random() < 0.5:
        # the bake was refused (an unused object): the user repairs the recipe, perhaps declares one more thing, and bakes again.
        # What the second bake does to the *values* is a known finding (steps applied twice); whether it may be baked at all
        # is judged: it still must not bake while something declared is unused.
        for n in list(run.lc.unused()):
            for _ in range(8):
                c = g.step_using(n)
                if c is None:
                    break
                if run.try_eager(c)[0] == 'ok':
                    emit(c)
                    break
        und = [n for n in g.undeclared if n not in run.lc.declared]
        if und and rng.random() < 0.6:
            emit({'c': 'uses', 'objs': [und[0]]})
        elif rng.random() < 0.3:
            emit({'c': 'create_container', 'name': f"late{rng.randrange(1000)}", 'cap': '1 mL', 'contents': []})
        run.stats['probe:bake_again_after_refusal'] += 1
        emit({'c': 'bake'})
    if run.baked is not None:
        from . import tracking
        for q in pre:
            emit({'c': 'q_flows', 'obj': q['obj'], 'tf': q['tf'], 'unit': q['unit'], 'explicit': True, 'pass_result': False})
        for q in tracking.gen_queries(run, rng, profile.get('n_queries', 8)):
            emit(q)
    lo, hi = profile['post']
    for _ in range(rng.randint(lo, hi)):
        c = g.post_bake_call() if run.baked is not None else g.illegal_call()
        g.followups.clear()
        if c is not None:
            if c.get('c') == 'bake' and run.bake_failed:
                continue        # bake after a failed bake is a known finding; only its witness does that
            emit(c)
    record = {'engine': 'B', 'property': prop, 'seed': seed, 'run': run_idx, 'tier': tier,
              'profile': {k: profile[k] for k in ('magnitude', 'round_numbers', 'plate_size', 'cache_policy', 'n_steps', 'shadow')},
              'subs': subs, 'prelude': prelude, 'events': calls}
    if run.baked is not None and run.eager_ok and rng.random() < profile.get('p_chain', 0.15):
        record['chain'] = second_recipe(rng, run, g, profile, known)
    if run.eager_ok and rng.random() < profile.get('p_alias', 0.1):
        from .engine_a import alias_spec
        spec = alias_spec(rng, subs, prelude)
        stages = sorted(set(c['name'] for c in calls if c['c'] == 'start_stage') - {'all'})     # 'all' is reserved: it keeps its meaning
        pool = ['All', 'ALL', ' all', 'all ', 'None', '0', 'stage'] + [n for n in run.lc.declared[:3]] + [s[0] for s in subs[:2]]
        rng.shuffle(pool)
        spec['stages'] = {}
        for i, s in enumerate(stages):
            new = pool[i] if i < len(pool) else f"z{i}"
            spec['stages'][s] = new if new not in spec['stages'].values() else f"z{i}"
        record['alias'] = spec
        alias_program(record, run, known)
    return record, run


def alias_program(record, run, known):
    """The same program with the substances, the plate labels and the stages called something else: every call is decided
    alike, bake returns the same values, every tracking question gets the same answer."""
    import copy
    from .engine_a import model_diff
    from .engine_c import query_answers
    spec = record['alias']
    subs3 = [list(s[:5]) + [spec['names'][i]] for i, s in enumerate(record['subs'])]
    prelude3 = copy.deepcopy(record.get('prelude', []))
    for ev in prelude3:
        if ev.get('op') == 'new_plate':
            for axis in ('rows', 'cols'):
                new = spec['labels'].get(f"{ev['name']}:{axis}")
                if new is not None and isinstance(ev[axis], list) and len(new) == len(ev[axis]):
                    ev[axis] = list(new)
    smap = spec.get('stages', {})
    calls3 = copy.deepcopy(record['events'])
    for c in calls3:
        if c['c'] in ('start_stage', 'end_stage') and c['name'] in smap:
            c['name'] = smap[c['name']]
        if c['c'].startswith('q_') and c.get('tf') in smap:
            c['tf'] = smap[c['tf']]
    prof = dict(record.get('profile', {}), shadow=False)
    try:
        run3 = RecipeRun(run.rep, subs3, known, prof)
    except ValueError:
        return
    run3.bench.instr_hooks = []          # the instruction oracle reads names
    for ev in prelude3:
        run3.bench.step(ev)
    for c in calls3:
        run3.do_call(c)
    run.stats['probe:alias_program'] += 1
    told = f"substances called {spec['names']}, labels {spec['labels']}, stages {smap}"
    a, b3 = [x for x in run.log if 'c' in x], [x for x in run3.log if 'c' in x]
    for i, (x, y) in enumerate(zip(a, b3)):
        if x.get('c') == y.get('c') and x.get('out') != y.get('out'):
            run.V('C16' if x['c'] != 'bake' else 'C08', 'depends_on_names', (x['c'], 'outcome'),
                  f"call {i} ({x['c']}) -> {x.get('out')}; with {told} -> {y.get('out')}")
            return
    if (run.baked is None) != (run3.baked is None):
        return
    if run.baked is not None:
        for n in run.baked:
            if n in run3.baked:
                d = model_diff(run.W, run.W.alpha(run.baked[n]), run3.W.alpha(run3.baked[n]))
                if d:
                    run.V('C08', 'depends_on_names', ('bake', 'value'), f"bake()[{n}]: {d} - the only difference is the names: {told}")
                    return
        q1 = query_answers(run, [c for c in record['events'] if c['c'].startswith('q_')])
        q3 = query_answers(run3, [c for c in calls3 if c['c'].startswith('q_')])
        for x, y in zip(q1, q3):
            if x[0] != y[0] or x[1] != y[1]:
                break
            same = x[4] == y[4]
            if same and x[5] is not None and y[5] is not None:
                xs = x[5] if isinstance(x[5], list) else [x[5]]
                ys = y[5] if isinstance(y[5], list) else [y[5]]
                same = len(xs) == len(ys) and all(abs(p - q) <= 1e-9 * max(abs(p), abs(q)) + 1e-12 for p, q in zip(xs, ys))
            if not same:
                prop = 'C09' if x[0] == 'used' else 'C15'
                run.V(prop, 'depends_on_names', (x[0],), f"{x[:4]} -> {x[4]} {x[5]}; with {told} -> {y[4]} {y[5]}", run.first_excuse((prop,)))
                return


def carry_over(run, known, profile):
    """A second recipe in the same process whose declared objects are what the first one baked (the usual way to work:
    one recipe makes the stocks, the next one the plate).  Anything a recipe leaves behind outside itself - class-level
    state, memo tables keyed by names - shows up here."""
    run2 = RecipeRun(run.rep, run.W.sub_specs, known, profile)
    run2.idx = run.idx
    run2.bench.idx = run.bench.idx
    carried = []
    for name in sorted(run.baked):
        o = run.baked[name]
        if getattr(o, 'name', None) != name:
            continue                   # renamed by a dilute step: the user knows it under the new name only
        try:
            run2.W.add(name, o)
        except RuntimeError:
            continue
        carried.append(name)
    return run2, carried


def fold(run, run2):
    run.violations.extend(run2.violations)
    run.stats.update(run2.stats)
    run.stats['probe:second_recipe_on_baked_results'] += 1
    run.sig.update(run2.sig)
    run.log.extend(run2.log)
    run.n_ok_state += run2.n_ok_state
    for k, v in run2.max_ratio.items():
        run.max_ratio[k] = max(run.max_ratio.get(k, 0.0), v)


def second_recipe(rng, run, g, profile, known):
    run2, carried = carry_over(run, known, profile)
    g2 = GenB(rng, run2, profile)
    g2.n_cont, g2.n_plate, g2.n_sol = g.n_cont + 1, g.n_plate + 1, g.n_sol + 1
    g2.used_names = set(g.used_names) | set(carried)
    prelude = []
    g2.use_bench(True)
    if rng.random() < 0.5:
        ev = g2.ev_new_container(boundary='roomy')
        prelude.append(ev)
        run2.bench.step(ev)
    g2.use_bench(False)
    calls = []

    def emit(c):
        calls.append(c)
        return run2.do_call(c)
    objs = list(run2.W.names())
    rng.shuffle(objs)
    emit({'c': 'uses', 'objs': objs})
    tries = 0
    n = rng.randint(1, 6)
    while len(run2.steps) < n and run2.eager_ok and tries < n * 6:
        tries += 1
        if run2.lc.open_stage is None and rng.random() < profile['p_stage']:
            emit({'c': 'start_stage', 'name': g2.new_stage_name()})
        c = g2.gen_step()
        if c is None or run2.try_eager(c)[0] != 'ok':
            continue
        emit(c)
        if run2.lc.open_stage is not None and rng.random() < 0.5:
            emit({'c': 'end_stage', 'name': run2.lc.open_stage})
    if run2.eager_ok:
        for name in list(run2.lc.unused()):
            for _ in range(8):
                c = g2.step_using(name)
                if c is None:
                    break
                if run2.try_eager(c)[0] == 'ok':
                    emit(c)
                    break
    emit({'c': 'bake'})
    if run2.baked is not None:
        from . import tracking
        for q in tracking.gen_queries(run2, rng, 5):
            emit(q)
    fold(run, run2)
    return {'prelude': prelude, 'events': calls}


def run_replay(record, known=None):
    rep = env.load_replica()
    rep.clear_caches()
    run = RecipeRun(rep, record['subs'], known, record.get('profile', {}))
    for ev in record.get('prelude', []):
        run.bench.step(ev)
    for c in record['events']:
        run.do_call(c)
    ch = record.get('chain')
    if ch and run.baked is not None:
        run2, _ = carry_over(run, known, record.get('profile', {}))
        for ev in ch.get('prelude', []):
            run2.bench.step(ev)
        for c in ch['events']:
            run2.do_call(c)
        fold(run, run2)
    if record.get('alias') and run.eager_ok:
        alias_program(record, run, known)
    return run
