"""Known findings: triggers are predicates over the abstract event and the (model) pre-state, evaluated before
execution.  An event matching a trigger has exactly the named oracle clauses excused (the violation is kept,
tagged with the finding id); everything else stays armed.  The file is read-only at run time."""
from __future__ import annotations

import json
import os

from .env import VERIF_DIR

PATH = os.path.join(VERIF_DIR, 'known_findings.json')


class Known:
    def __init__(self, path=PATH):
        with open(path) as fh:
            data = json.load(fh)
        self.findings = {f['id']: f for f in data.get('findings', [])}
        self.fixed = data.get('fixed', [])
        self.by_trigger = {}
        for f in self.findings.values():
            self.by_trigger.setdefault(f['trigger'], f)

    def active(self, trigger):
        return self.by_trigger.get(trigger)

    def _hit(self, trigger, excuse, skip_judge=False):
        f = self.by_trigger.get(trigger)
        if f is None:
            return None
        return {'id': f['id'], 'excuse': tuple(excuse), 'skip_judge': skip_judge}

    def for_property(self, prop):
        return [f for f in self.findings.values() if f['property'] == prop or prop in f.get('also', [])]

    # ---- Engine A triggers
    def match_transfer(self, bench, ev, s, d, form, same, overlap, unit):
        if same and s.kind == 'container':
            return self._hit('transfer_container_into_itself', ('C01', 'C02'), skip_judge=True)
        if overlap:
            return self._hit('transfer_same_plate_overlap', ('C01', 'C02', 'C07', 'locality'), skip_judge=True)
        if form == 'list' or (s.sel and s.sel.get('k') == 'list') or (d.sel and d.sel.get('k') == 'list'):
            return self._hit('transfer_list_selector', ('C01', 'C02', 'C07', 'locality'), skip_judge=True)
        return None

    def match_fill_to(self, bench, ev, t, solvent, unit):
        return None

    def match_dilute(self, bench, ev, t):
        return None


def load():
    return Known()
