"""Known findings: triggers are predicates over the abstract event and the (model) pre-state, evaluated before
execution.  An event matching a trigger has exactly the named oracle clauses excused (the violation is kept,
tagged with the finding id); everything else stays armed.  The file is read-only at run time."""
from __future__ import annotations

import json
import os

from .env import VERIF_DIR

PATH = os.path.join(VERIF_DIR, 'known_findings.json')


class Known:
    def __init__(self, path=PATH):
        with open(path) as fh:
            data = json.load(fh)
        self.findings = {f['id']: f for f in data.get('findings', [])}
        self.fixed = data.get('fixed', [])
        self.by_trigger = {}
        for f in self.findings.values():
            self.by_trigger.setdefault(f['trigger'], f)

    def active(self, trigger):
        return self.by_trigger.get(trigger)

    def _hit(self, trigger, excuse, skip_judge=False):
        f = self.by_trigger.get(trigger)
        if f is None:
            return None
        return {'id': f['id'], 'excuse': tuple(excuse), 'skip_judge': skip_judge}

    def for_property(self, prop):
        return [f for f in self.findings.values() if f['property'] == prop or prop in f.get('also', [])]

    # ---- Engine A triggers
    def match_transfer(self, bench, ev, s, d, form, same, overlap, unit):
        if same and s.kind == 'container':
            return self._hit('transfer_container_into_itself', ('C01', 'C02'), skip_judge=True)
        if overlap:
            return self._hit('transfer_same_plate_overlap', ('C01', 'C02', 'C07', 'locality'), skip_judge=True)
        s_list = bool(s.sel and s.sel.get('k') == 'list')
        d_list = bool(d.sel and d.sel.get('k') == 'list')
        if s.kind == 'plate' and d.kind == 'plate' and (s_list or d_list):
            both = s_list and d_list
            single_list = (s_list and len(s.cells) == 1) or (d_list and len(d.cells) == 1)
            if both or single_list:
                h = self._hit('transfer_list_pairing', ('C01', 'C02', 'C07', 'locality'), skip_judge=True)
                if h is not None:
                    h['only_if_raises'] = True      # the finding is that such calls raise; one that returns is judged in full
                return h
        return None

    def match_solution(self, bench, ev, sop):
        """create_solution with a Container as solvent whose non-enzyme content is below 1e4 rounding steps of the *base* unit
        (1e-6 mol at the shipped precision): the library converts that total to mol and rounds it there."""
        if sop is None:
            return None
        from fractions import Fraction as F
        W = bench.world
        m = W.alpha_container(sop.base)
        moles = sum((a for n, a in m.contents.items() if not W.msubs[n].is_enzyme), F(0))
        if 0 < moles < 10 ** 4 * F(1, 10 ** W.units.p):
            return self._hit('solution_container_solvent_trace_moles', ('C19',))
        return None

    def match_fill_to(self, bench, ev, t, solvent, unit):
        return None

    def match_dilute(self, bench, ev, t):
        return None


# ---- Engine B triggers (run-level: the finding excuses its property's clauses for the whole run)
def match_recipe_step(self, run, c):
    k = c['c']
    if k == 'transfer' and len(c['src']) > 1 and len(c['dst']) > 1 and c['src'][1] and c['dst'][1]:
        sl, dl = c['src'][1].get('k') == 'list', c['dst'][1].get('k') == 'list'
        if sl or dl:
            ns = len(c['src'][1].get('cells', [])) if sl else None
            nd = len(c['dst'][1].get('cells', [])) if dl else None
            if (sl and dl) or ns == 1 or nd == 1:
                return self._hit('transfer_list_pairing', ('C07', 'C08'))
    if k == 'fill_to' and len(c['tgt']) > 1 and c['tgt'][1] is not None and c['tgt'][1].get('k') != 'all':
        cells = run.cells_of(c['tgt'], {n: o for n, o in run.eager.items() if o is not None})
        o = run.eager.get(c['tgt'][0])
        if cells is not None and o is not None and len(cells) < o.n_rows * o.n_columns:
            return self._hit('recipe_fill_to_slice', ('C07', 'C08', 'C09', 'C15'))
    if k == 'dilute' and c.get('name'):
        return self._hit('recipe_dilute_rename', ('C09', 'C15', 'C17'))
    return None

def match_bake_after_failed_bake(self, run):
    return self._hit('bake_after_failed_bake', ('C08',))


Known.match_recipe_step = match_recipe_step
Known.match_bake_after_failed_bake = match_bake_after_failed_bake
del match_recipe_step, match_bake_after_failed_bake


def load():
    return Known()
