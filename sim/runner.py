"""Parallel batch runner: run indices are sharded over forked workers; results are merged sorted by run index,
so the output does not depend on the worker count."""
from __future__ import annotations

import faulthandler
import multiprocessing
import os
import sys
import time
import traceback
from collections import Counter
from concurrent.futures import ProcessPoolExecutor, as_completed

from .common import HarnessError


def engine_for(prop):
    from . import engines
    return engines.engine_for(prop)


def summarize(prop, record, res, keep_record=False):
    """res: object with .violations, .stats, .sig, .log, .n_ok_state, .max_ratio, .allowances"""
    from .common import digest
    own = [v for v in res.violations if v.prop == prop and v.known is None]
    other = Counter(v.prop for v in res.violations if v.prop != prop and v.known is None)
    known = Counter(v.known for v in res.violations if v.known is not None)
    out = {
        'run': record['run'],
        'n_events': len(record.get('events', ())) + len((record.get('session2') or {}).get('events', ())),
        'n_ok': getattr(res, 'n_ok_state', 0),
        'nontrivial': bool(getattr(res, 'nontrivial', lambda p: res.n_ok_state >= 2)(prop)),
        'sig': sorted(repr(t) for t in res.sig),
        'stats': dict(res.stats),
        'violations': [v.to_json() for v in own],
        'other': dict(other),
        'known': dict(known),
        'digest': digest([res.log, [v.to_json() for v in res.violations]]),
        'max_ratio': dict(res.max_ratio),
        'allowances': dict(getattr(res, 'allowances', {})),
    }
    if own or keep_record:
        out['record'] = record
    return out


def _work(args):
    prop, seed, runs, tier, sample_runs = args
    faulthandler.enable()
    # watchdog: a chunk that takes this long is a harness error, never success
    faulthandler.dump_traceback_later(float(os.environ.get('VERIF_CHUNK_TIMEOUT', '900')), exit=True)
    eng = engine_for(prop)
    known = eng.load_known()
    out = []
    for run in runs:
        try:
            record, res = eng.run_generated(prop, seed, run, tier, known=known)
            out.append(summarize(prop, record, res, keep_record=run in sample_runs))
        except Exception:
            out.append({'run': run, 'harness_error': traceback.format_exc()})
    faulthandler.cancel_dump_traceback_later()
    return out


def run_batch(prop, seed, n_runs, tier, workers=None, chunk=None, start=0, wall_budget=None):
    workers = workers or int(os.environ.get('VERIF_WORKERS', '0')) or min(16, os.cpu_count() or 1)
    chunk = chunk or getattr(engine_for(prop), 'chunk', None) or max(1, min(25, n_runs // (workers * 4) or 1))
    runs = list(range(start, start + n_runs))
    chunks = [runs[i:i + chunk] for i in range(0, len(runs), chunk)]
    sample_runs = set(runs[:3])
    results = []
    t0 = time.time()
    if workers == 1:
        for c in chunks:
            results.extend(_work((prop, seed, c, tier, sample_runs)))
    else:
        ctx = multiprocessing.get_context('fork')
        with ProcessPoolExecutor(max_workers=workers, mp_context=ctx) as ex:
            futs = [ex.submit(_work, (prop, seed, c, tier, sample_runs)) for c in chunks]
            try:
                for f in as_completed(futs, timeout=wall_budget or float(os.environ.get('VERIF_BATCH_TIMEOUT', '3000'))):
                    results.extend(f.result())
            except Exception as exc:
                for f in futs:
                    f.cancel()
                for p in list(getattr(ex, '_processes', {}).values()):
                    try:
                        p.kill()
                    except Exception:
                        pass
                raise HarnessError(f"batch failed: {exc!r}")
    results.sort(key=lambda r: r['run'])
    return results, time.time() - t0
