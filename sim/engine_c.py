"""Engine C (C18): the same seeded script on N replicas of the library, each loaded through the real
PYPLATE_CONFIG -> pyplate.yaml seam with different storage units / internal precision.  Replicas must agree on every
answer in user units (within the coarsest replica's rounding) and on every accept / refuse decision."""
from __future__ import annotations

import copy
import os
from fractions import Fraction as F

import numpy

from . import env, model as M
from .bench import Bench
from .common import derive_rng, Violation, HarnessError
from .gen_a import GenA, gen_substances
from .gen_b import GenB
from .recipe_exec import RecipeRun

MOL_UNITS = ['nmol', 'umol', 'mmol', 'mol']
VOL_UNITS = ['nL', 'uL', 'mL', 'L']


def base_cfg():
    import yaml, os
    with open(os.path.join(env.REPO, 'pyplate', 'pyplate.yaml')) as fh:
        return yaml.safe_load(fh)


def make_cfg(base, mol, vol, prec, solid_density=None, enzyme_density=None):
    cfg = copy.deepcopy(base)
    cfg['moles_storage_unit'] = mol
    cfg['volume_storage_unit'] = vol
    cfg['internal_precision'] = prec
    if solid_density is not None:
        cfg['default_solid_density'] = solid_density
    if enzyme_density is not None:
        cfg['default_enzyme_density'] = enzyme_density
    return cfg


def cfg_tag(cfg):
    return f"{cfg['moles_storage_unit']}-{cfg['volume_storage_unit']}-p{cfg['internal_precision']}-s{cfg['default_solid_density']}-e{cfg['default_enzyme_density']}"


def coarseness(cfg):
    """Largest rounding quantum of the configuration, in mol / L."""
    q = F(1, 10 ** int(cfg['internal_precision']))
    return q * M.PREFIXES[cfg['moles_storage_unit'][:-3]], q * M.PREFIXES[cfg['volume_storage_unit'][:-1]]


# --------------------------------------------------------------------------- answers in user units

def user_state(b, obj):
    """Contents of a result object in user units (mol | U, litres), read through the abstraction."""
    W = b.world
    rep = b.rep
    if isinstance(obj, rep.Plate):
        return ('plate', [user_state(b, w) for w in obj.wells.flatten()])
    mv = W.alpha_container(obj)
    return ('container', dict(mv.contents), W.stored_volume(obj), mv.cap)


def observe(b, obj, panel_rng_seed):
    """A fixed panel of observer answers in user-chosen units."""
    import random
    rng = random.Random(panel_rng_seed)
    rep, W = b.rep, b.world
    out = []
    subs = sorted(W.rsubs)

    def call(tag, fn):
        try:
            v = fn()
            if isinstance(v, numpy.ndarray):
                v = [float(x) for x in v.flatten()]
            elif isinstance(v, (set, frozenset)):
                v = sorted(s.name for s in v)
            else:
                v = float(v)
            out.append((tag, 'ok', v))
        except Exception as e:  # noqa
            out.append((tag, type(e).__name__, None))
    if isinstance(obj, rep.Container):
        for unit in ('mL', rng.choice(['uL', 'L', 'nL'])):
            call(f"get_volume({unit})", lambda: obj.get_volume(unit))
        for _ in range(2):
            s = rng.choice(subs)
            units = rng.choice(['U/mL', 'mg/mL'] if W.msubs[s].is_enzyme else ['M', 'mM', 'mg/mL', '%w/w', 'mol/mol'])
            call(f"get_concentration({s},{units})", lambda: obj.get_concentration(W.rsubs[s], units))
    else:
        unit = rng.choice(['uL', 'mL'])
        call(f"get_volumes({unit})", lambda: obj.get_volumes(unit=unit))
        s = rng.choice(subs)
        call(f"get_moles({s},umol)", lambda: obj.get_moles(W.rsubs[s], unit='umol'))
        call(f"get_volumes({s},uL)", lambda: obj.get_volumes(substance=W.rsubs[s], unit='uL'))
        call("get_volume(mL)", lambda: obj.get_volume(unit='mL'))
    return out


class AnswerBench(Bench):
    """Bench that also records, per event, the outcome and the answers in user units."""

    def __init__(self, *a, **kw):
        super().__init__(*a, **kw)
        self.answers = []
        self._cur = None

    def step(self, ev):
        self._cur = {'named': []}
        if not hasattr(self, 'events_seen'):
            self.events_seen = []
        self.events_seen.append(ev)
        rec = super().step(ev)
        self.answers.append({'out': rec.get('out'), 'status': rec.get('status'), 'margin_rel': rec.get('margin_rel', 1.0),
                             'named': self._cur['named']})
        return rec

    def after_result(self, ev, named, key, **info):
        for i, (name, obj) in enumerate(named):
            self._cur['named'].append((name, user_state(self, obj), observe(self, obj, ev.get('obs', 0) + i)))
        super().after_result(ev, named, key, **info)


# --------------------------------------------------------------------------- comparison

DRIFT = F(2, 100)     # relative disagreement above which replicas are reported as disagreeing


def close(a, b, tol_abs, tol_rel):
    return abs(a - b) <= tol_abs + tol_rel * max(abs(a), abs(b))


def gross(a, b, tol_abs):
    """Disagreement far beyond what rounding of the coarsest replica, amplified through ill-conditioned ratios, explains."""
    return abs(a - b) > 50 * tol_abs + DRIFT * max(abs(a), abs(b))


class Comparator:
    def __init__(self, cfgs, n_events):
        qs = [coarseness(c) for c in cfgs]
        self.q_mol = max(q[0] for q in qs)
        self.q_vol = max(q[1] for q in qs)
        self.q_u = max(F(1, 10 ** int(c['internal_precision'])) for c in cfgs)
        self.n = n_events
        self.viol = []
        self.drifted = False     # a replica disagreed by more than rounding but less than DRIFT: comparison stops, no verdict

    def tol_amt(self, msub, k):
        """Absolute / relative tolerance of an amount after k events: the amount quantum, plus the volume quantum expressed
        in amount through the concentration of the pure substance (a volume request resolves amounts only that finely)."""
        q = self.q_u if msub.is_enzyme else self.q_mol
        # mass requests are rounded to p decimals in grams: that step expressed in amount
        return 200 * (q + self.q_vol / msub.per_amount('L') + self.q_u / msub.per_amount('g')) * (k + 2), F(1, 10 ** 4)

    def cmp_state(self, W, a, b, k, where):
        if a[0] != b[0]:
            return f"{where}: kinds differ"
        if a[0] == 'plate':
            for i, (x, y) in enumerate(zip(a[1], b[1])):
                d = self.cmp_state(W, x, y, k, f"{where}[{i}]")
                if d:
                    return d
            return None
        _, ca, va, capa = a
        _, cb, vb, capb = b
        for n in dict.fromkeys(list(ca) + list(cb)):
            x, y = ca.get(n, F(0)), cb.get(n, F(0))
            ta, tr = self.tol_amt(W.msubs[n], k)
            if not close(x, y, ta, tr):
                # what is left after a near-total withdrawal is a difference of large numbers: replicas that agreed to 1e-6
                # on the amount before (the drift band) may differ by percents on the remainder.  Drift is therefore measured
                # against the largest amount the substance ever had in one vessel of the run, where that is known.
                own = max(abs(x), abs(y))
                peak = getattr(self, 'peak', {}).get(n, F(0))
                if abs(x - y) <= 50 * ta + DRIFT * max(own, peak / 1000):
                    self.drifted = True
                    continue
                return f"{where}: {n} = {float(x):.9g} vs {float(y):.9g} ({'mol' if not W.msubs[n].is_enzyme else 'U'})"
        f = sum((self.tol_amt(W.msubs[n], k)[0] * W.msubs[n].per_amount('L') for n in dict.fromkeys(list(ca) + list(cb))), F(0))
        if not close(va, vb, 200 * self.q_vol * (k + 2) + f, F(1, 10 ** 4)):
            if not gross(va, vb, 200 * self.q_vol * (k + 2) + f):
                self.drifted = True
            else:
                return f"{where}: volume = {float(va):.9g} L vs {float(vb):.9g} L"
        if (capa is None) != (capb is None) or (capa is not None and not close(capa, capb, 10 * self.q_vol, F(1, 10 ** 9))):
            return f"{where}: capacity = {capa} vs {capb}"
        return None

    def request_ok(self, ev):
        """False if a quantity in the event is below 1e4 rounding steps of the coarsest replica in its own unit: such a
        request is legitimately resolved differently by differently configured replicas."""
        qs = []
        for field in ('q',):
            if isinstance(ev.get(field), str):
                qs.append(ev[field])
        for sname, q in ev.get('contents') or []:
            qs.append(q)
        kw = ev.get('kwargs') or {}
        for f in ('quantity', 'total_quantity'):
            v = kw.get(f)
            qs += v if isinstance(v, list) else [v] if isinstance(v, str) else []
        for q in qs:
            try:
                value, unit = M.parse_quantity(q)
            except Exception:
                continue
            quantum = {'g': self.q_u, 'U': self.q_u, 'mol': self.q_mol, 'L': max(self.q_vol, F(0))}[unit]
            if value != 0 and abs(value) < 10 ** 4 * quantum:
                return False
        return True

    def state_floor_ok(self, W, st):
        """False if some amount in the state sits within 1e4 rounding steps of zero."""
        if st[0] == 'plate':
            return all(self.state_floor_ok(W, w) for w in st[1])
        for n, a in st[1].items():
            ms = W.msubs[n]
            q = (self.q_u if ms.is_enzyme else self.q_mol) + self.q_vol / ms.per_amount('L') + self.q_u / ms.per_amount('g')
            if a != 0 and abs(a) < 10 ** 4 * q:
                return False
        return True

    def well_conditioned(self, W, st):
        """Observers that divide (concentrations) are compared only where the state is far above every quantum."""
        if st[0] != 'container':
            return False
        _, contents, vol, cap = st
        if vol < 10 ** 6 * self.q_vol or vol < 10 ** 4 * self.q_u:     # get_concentration divides by the volume rounded in litres
            return False
        for n, a in contents.items():
            ms = W.msubs[n]
            q = self.q_u if ms.is_enzyme else self.q_mol
            if a != 0 and a < 10 ** 6 * (q + self.q_vol / ms.per_amount('L')):
                return False
        return True

    def cmp_obs(self, oa, ob, where, W=None, st=None, k=0):
        cond = self.well_conditioned(W, st) if st is not None else False
        vol_tol = float(200 * self.q_vol * (k + 2)) * 4
        def amt_vol(contents):
            return float(sum((self.tol_amt(W.msubs[n], k)[0] * W.msubs[n].per_amount('L') for n in contents), F(0)))
        if st is not None and st[0] == 'container':
            vol_tol += amt_vol(st[1])
        elif st is not None and st[0] == 'plate':
            vol_tol += max([amt_vol(w[1]) for w in st[1]] + [0.0]) * len(st[1])
        for (ta, sa, va), (tb, sb, vb) in zip(oa, ob):
            if 'get_concentration' in ta and not cond:
                continue
            self.vol_tol_l = vol_tol
            if ta != tb:
                return f"{where}: observer panel differs"
            if sa != sb:
                return f"{where}: {ta} -> {sa} vs {sb}"
            if sa != 'ok':
                continue
            if isinstance(va, list):
                if len(va) != len(vb):
                    return f"{where}: {ta} lengths differ"
                if va and isinstance(va[0], str):
                    continue
                for x, y in zip(va, vb):
                    if not self.num_close(ta, x, y):
                        return f"{where}: {ta} = {x!r} vs {y!r}"
            elif not self.num_close(ta, va, vb):
                return f"{where}: {ta} = {va!r} vs {vb!r}"
        return None

    def num_close(self, tag, x, y):
        # answers are rounded for display: one display step, a relative allowance, and for volumes the coarsest storage
        # rounding expressed in the unit of the answer
        step = 1.0 if ('uL' in tag and 'get_volumes' in tag) else 0.11 if 'umol' in tag else 1e-3
        extra = 0.0
        for unit, mult in (('nL', 1e-9), ('uL', 1e-6), ('mL', 1e-3), ('L)', 1.0)):
            if unit in tag and ('get_volume' in tag):
                extra = getattr(self, 'vol_tol_l', 0.0) / mult
                break
        if abs(x - y) <= step + extra + 2e-3 * max(abs(x), abs(y)):
            return True
        if abs(x - y) <= 50 * (step + extra) + float(DRIFT) * max(abs(x), abs(y)):
            self.drifted = True
            return True
        return False


def b0_stats_drift(a0):
    pass


def compare_bench(b0, others, cfgs, W):
    """others: list of (cfg, AnswerBench) -> list of (event index, clause, description)."""
    cmpr = Comparator(cfgs, len(b0.answers))
    out = []
    a0 = b0.answers
    for cfg, b in others:
        cmpr.drifted = False
        for k, (x, y) in enumerate(zip(a0, b.answers)):
            tag = cfg_tag(cfg)
            ox, oy = x['out'], y['out']
            if ox != oy:
                sure = x.get('status') in ('must_accept', 'must_refuse', 'must_reject', None) and \
                    y.get('status') in ('must_accept', 'must_refuse', 'must_reject', None) and \
                    x.get('margin_rel', 1.0) >= 5e-4 and y.get('margin_rel', 1.0) >= 5e-4 and cmpr.request_ok(b0.events_seen[k])
                if sure:
                    out.append((k, 'decision', f"event {k}: shipped config -> {ox}, {tag} -> {oy}"))
                break       # histories diverge from here on
            # (the floor is looked at in both replicas' states: what one configuration holds as exactly nothing - a drained
            # vessel, a solvent of which none was needed - another may hold as a rounding residue)
            if not cmpr.request_ok(b0.events_seen[k]) or not all(cmpr.state_floor_ok(W, sa) for (_, sa, _) in x['named']) \
                    or not all(cmpr.state_floor_ok(W, sb) for (_, sb, _) in y['named']):
                cmpr.drifted = True
            if cmpr.drifted:
                b0_stats_drift(a0)
                break
            for (na, sa, oa), (nb, sb, ob) in zip(x['named'], y['named']):
                d = cmpr.cmp_state(W, sa, sb, k, f"{na} ({tag})")
                if d:
                    out.append((k, 'state', f"event {k}: {d}"))
                    break
                d = cmpr.cmp_obs(oa, ob, f"{na} ({tag})", W, sa, k)
                if d:
                    out.append((k, 'observer', f"event {k}: {d}"))
                    break
            else:
                continue
            break
        if cmpr.drifted:
            b0.stats['replica_drifted_comparison_stopped'] += 1
    return out


# --------------------------------------------------------------------------- runs

def choose_cfgs(rng, tier):
    base = base_cfg()
    sd = rng.choice([1, 1, 2, 2.5])
    ed = rng.choice([1, 1, 1.3])
    cfgs = [make_cfg(base, base['moles_storage_unit'], base['volume_storage_unit'], base['internal_precision'], sd, ed)]
    n = rng.randint(2, 3) if tier == 'quick' else rng.randint(2, 4)
    seen = {cfg_tag(cfgs[0])}
    while len(cfgs) < n + 1:
        c = make_cfg(base, rng.choice(MOL_UNITS), rng.choice(VOL_UNITS), rng.choice([10, 12]), sd, ed)
        if cfg_tag(c) not in seen:
            seen.add(cfg_tag(c))
            cfgs.append(c)
    return cfgs


def profile_c(rng, tier, cfgs):
    from .engine_a import BASE_OPS
    coarse_mol = max(coarseness(c)[0] for c in cfgs)
    coarse_vol = max(coarseness(c)[1] for c in cfgs)
    # keep quantities >= ~1e5 quanta of the coarsest replica
    if coarse_mol >= F(1, 10 ** 11) or coarse_vol >= F(1, 10 ** 11):
        mag = 'mL-L'
    elif coarse_mol >= F(1, 10 ** 14) or coarse_vol >= F(1, 10 ** 14):
        mag = rng.choice(['uL-mL', 'mL-L'])
    else:
        mag = rng.choice(['uL-mL', 'mL-L', 'uL-mL'])
    p = {'op_w': dict(BASE_OPS, hold_slice=0, solution=0.6, solution_from=0.3, drain_fresh=1.6), 'magnitude': mag, 'round_numbers': rng.random() < 0.6,
         'plate_size': 'small', 'cache_policy': 'never',
         # far from every feasibility boundary: far_in, far_out, negative, zero only
         # plus requests a little (1e-3 relative) inside / outside the source boundary: far above every replica's rounding,
         # judged only where every replica's own model is sure of the decision
         'q_w': [12, 1.0, 0.5, 1.0, 1.2, 0.3, 0.3, 1.0], 'near_rel': F(1, 10 ** 3), 'fill_w': [10, 1.2, 0, 0, 0, 0, 0, 1, 0.2, 0.2],
         'cap_w': [3, 6, 0, 0, 0.6, 0.2], 'dil_w': [8, 3, 1.5, 0, 0], 'stale_p': 0.1, 'min_conc_base': F(1, 10 ** 4),
         'n_events': rng.randint(8, 18 if tier == 'quick' else 28)}
    p['p_dilute_stock'] = 0.6
    if rng.random() < 0.3:
        # swarm: a script about making solutions, mostly in solvent containers that already hold other things (enzymes too)
        p['op_w'].update(solution=4, solution_from=2, transfer=4)
        p['p_container_solvent'] = 0.7
        p['kind_w'] = [4, 3, 4]
    return p


def run_generated(prop, seed, run_idx, tier, known=None):
    rng = derive_rng(seed, prop, run_idx)
    cfgs = choose_cfgs(rng, tier)
    profile = profile_c(rng, tier, cfgs)
    subs = gen_substances(rng, profile)
    recipe_mode = rng.random() < 0.3
    record = {'engine': 'C', 'property': prop, 'seed': seed, 'run': run_idx, 'tier': tier, 'cfgs': cfgs, 'subs': subs,
              'profile': {k: profile[k] for k in ('magnitude', 'round_numbers', 'n_events')}, 'mode': 'recipe' if recipe_mode else 'bench'}
    rep0 = env.load_replica(cfgs[0], cfg_tag(cfgs[0]))
    rep0.clear_caches()
    if not recipe_mode:
        b0 = AnswerBench(rep0, subs, known=known, obs=False)
        g = GenA(rng, b0, profile)
        events = []
        for ev in g.initial_events():
            events.append(ev)
            b0.step(ev)
        while len(events) < profile['n_events']:
            ev = g.next_event()
            events.append(ev)
            b0.step(ev)
        record['events'] = events
        return record, finish_bench(record, b0, known)
    # recipe mode: generate the program on the shipped configuration
    from . import engine_b, tracking
    bprof = engine_b.make_profile('C08', rng, tier)
    bprof.update({'min_conc_base': profile['min_conc_base'], 'magnitude': profile['magnitude'], 'q_w': profile['q_w'], 'fill_w': profile['fill_w'], 'cap_w': profile['cap_w'],
                  'dil_w': profile['dil_w'], 'p_illegal': 0.0, 'p_infeasible': 0.0, 'cache_policy': 'never', 'post': (0, 0)})
    if 'p_container_solvent' in profile:
        bprof['p_container_solvent'] = profile['p_container_solvent']
        bprof['step_w'] = dict(bprof['step_w'], solution=6, solution_from=3)
        bprof['op_w'] = bprof['step_w']
    run0 = AnswerRecipeRun(rep0, subs, known, bprof)
    g = GenB(rng, run0, bprof)
    g.use_bench(True)
    prelude = []
    for ev in g.prelude():
        prelude.append(ev)
        run0.bench.step(ev)
    for ev in g.prelude_fill():
        prelude.append(ev)
        run0.bench.step(ev)
    g.use_bench(False)
    calls = []

    def emit(c):
        calls.append(c)
        return run0.do_call(c)
    objs = list(run0.W.names())
    emit({'c': 'uses', 'objs': objs})
    tries = 0
    while len(run0.steps) < bprof['n_steps'] and run0.eager_ok and tries < 60:
        tries += 1
        c = g.gen_step()
        if c is None or run0.try_eager(c)[0] != 'ok':
            continue
        emit(c)
    for n in list(run0.lc.unused()):
        for _ in range(8):
            c = g.step_using(n)
            if c is not None and run0.try_eager(c)[0] == 'ok':
                emit(c)
                break
    emit({'c': 'bake'})
    if run0.baked is not None:
        for q in tracking.gen_queries(run0, rng, 8):
            emit(q)
    record['prelude'] = prelude
    record['events'] = calls
    return record, finish_recipe(record, run0, known)


def own_interpreter_check(record, runs):
    """Fidelity of the seam: a replica loaded inside this process (sys.modules purge + PYPLATE_CONFIG) must answer exactly as
    the library does when it is imported the ordinary way in an interpreter of its own, configured through the environment
    only (sim/c18_child.py).  A difference is a fault of the harness, not of the library: HarnessError."""
    import json
    import subprocess
    import sys
    from .c18_child import answers_digest
    path = os.path.join(env.scratch_dir(), f"c18-child-{os.getpid()}.json")
    with open(path, 'w') as fh:
        json.dump({'cfgs': record['cfgs'], 'subs': record['subs'], 'events': record['events']}, fh)
    try:
        for cfg, b in runs:
            idx = record['cfgs'].index(cfg)
            cp = subprocess.run([sys.executable, '-m', 'sim.c18_child', path, str(idx)], capture_output=True, text=True, timeout=300,
                                cwd=os.path.dirname(os.path.dirname(os.path.abspath(__file__))),
                                env={k: v for k, v in os.environ.items() if k not in ('PYPLATE_CONFIG', 'VERIF_C18_CHILD')})
            if cp.returncode != 0:
                raise HarnessError(f"own-interpreter replica {cfg_tag(cfg)} failed: {cp.stderr[-400:]}")
            got = json.loads(cp.stdout.strip().splitlines()[-1])
            mine = answers_digest(b.answers)
            if got['digest'] != mine or got['n'] != len(b.answers):
                raise HarnessError(f"in-process replica {cfg_tag(cfg)} answers {mine} ({len(b.answers)} events), the same script in an "
                                   f"interpreter of its own answers {got['digest']} ({got['n']} events)")
    finally:
        try:
            os.remove(path)
        except OSError:
            pass


def finish_bench(record, b0, known):
    cfgs = record['cfgs']
    runs = []
    for c in cfgs[1:]:
        try:
            rep = env.load_replica(c, cfg_tag(c))
        except Exception as e:  # noqa
            b0.V('C18', 'config_rejected', ('load', c['moles_storage_unit'], c['volume_storage_unit']),
                 f"documented configuration {cfg_tag(c)} cannot be loaded: {type(e).__name__}: {e}")
            continue
        rep.clear_caches()
        b = AnswerBench(rep, record['subs'], known=known, obs=False)
        try:
            for ev in record['events']:
                b.step(ev)
        except Exception as e:  # noqa  (harness-level failure inside a replica = the library crashed in an unexpected place)
            b0.idx = len(b.answers)
            b0.V('C18', 'replica_crashed', ('bench', c['moles_storage_unit'], c['volume_storage_unit']),
                 f"under {cfg_tag(c)} event {len(b.answers)} made the harness fail: {type(e).__name__}: {e}")
            continue
        runs.append((c, b))
        # oracle violations that appear only under the non-shipped configuration
        base_keys = set(v.fkey() for v in b0.violations)
        floor = Comparator(cfgs, len(record['events']))
        for v in b.violations:
            if v.known is None and v.fkey() not in base_keys:
                if 0 <= v.event < len(record['events']) and not floor.request_ok(record['events'][v.event]):
                    b0.stats['config_specific_violation_below_request_floor_unjudged'] += 1
                    continue        # a quantity below 1e4 rounding steps of the coarsest replica (a trace, a tiny negative amount)
                b0.violations.append(Violation('C18', 'config_specific_violation', (v.prop, v.clause, c['moles_storage_unit'], c['volume_storage_unit']),
                                               v.event, f"only under {cfg_tag(c)}: {v.prop}.{v.clause}: {v.detail}"))
                break
    for k, clause, detail in compare_bench(b0, runs, cfgs, b0.world):
        b0.idx = k
        ev = record['events'][k]
        b0.V('C18', 'replicas_disagree_' + clause, (ev.get('op', ev.get('c')), clause), detail)
    b0.stats['probe:replicas_compared'] += len(runs)
    if (record.get('tier') == 'thorough' and isinstance(record.get('run'), int) and record['run'] < 2) or os.environ.get('VERIF_C18_CHILD'):
        own_interpreter_check(record, [(cfgs[0], b0)] + runs)
        b0.stats['probe:own_interpreter_replica_checked'] += 1
    for c in cfgs[1:]:
        b0.sig.add(('cfg', c['moles_storage_unit'], c['volume_storage_unit'], c['internal_precision']))
    b0.violations[:] = [v for v in b0.violations if v.prop == 'C18']
    return b0


class AnswerRecipeRun(RecipeRun):
    def __init__(self, *a, **kw):
        super().__init__(*a, **kw)
        self.answers = []

    def call(self, fn):
        out = super().call(fn)
        return out

    def do_call(self, c):
        rec = super().do_call(c)
        self.answers.append({'c': c['c'], 'out': rec.get('out')})
        return rec


def query_answers(run, calls):
    """Raw answers of the tracking queries of a baked program, re-asked outside the oracles (user units)."""
    W, R = run.W, run.recipe
    from . import tracking
    out = []
    if run.baked is None:
        return out
    for c in calls:
        if c['c'] == 'q_used':
            kw = {}
            if c.get('unit'):
                kw['unit'] = c['unit']
            kw['timeframe'] = c['tf']
            if c.get('dests', 'plates') != 'plates':
                kw['destinations'] = [tracking.user_object(run, n, False) for n in c['dests'] if n in run.handles or n in (run.baked or {})]
            o = run.call(lambda: R.get_substance_used(W.rsubs[c['sub']], **kw))
            out.append(('used', c['sub'], c['tf'], c.get('unit'), o[0], float(o[1]) if o[0] == 'ok' else None))
        elif c['c'] == 'q_flows':
            obj = tracking.user_object(run, c['obj'], False)
            if obj is None:
                continue
            o = run.call(lambda: R.get_container_flows(obj, timeframe=c['tf'], unit=c['unit']))
            v = None
            if o[0] == 'ok':
                v = [float(x) for x in numpy.asarray(o[1]['in'], dtype=float).flatten()] + [float(x) for x in numpy.asarray(o[1]['out'], dtype=float).flatten()]
            out.append(('flows', c['obj'], c['tf'], c['unit'], o[0], v))
            o = run.call(lambda: R.get_amount_remaining(obj, timeframe=c['tf'], unit=c['unit']))
            v = None
            if o[0] == 'ok' and o[1] is not None:
                v = [float(x) for x in numpy.asarray(o[1], dtype=float).flatten()]
            out.append(('remaining', c['obj'], c['tf'], c['unit'], o[0], v))
    return out


def finish_recipe(record, run0, known):
    cfgs = record['cfgs']
    calls = record['events']
    pre = Comparator(cfgs, len(calls))
    if not all(pre.request_ok(ev) for ev in list(record.get('prelude', [])) + list(calls)):
        run0.stats['recipe_request_below_rounding_floor_unjudged'] += 1
        run0.violations[:] = [v for v in run0.violations if v.prop == 'C18']
        return run0
    a0 = query_answers(run0, calls)
    base_keys = set(v.fkey() for v in run0.violations)
    for c in cfgs[1:]:
        tag = cfg_tag(c)
        try:
            rep = env.load_replica(c, tag)
        except Exception as e:  # noqa
            run0.V('C18', 'config_rejected', ('load', c['moles_storage_unit'], c['volume_storage_unit']),
                   f"documented configuration {tag} cannot be loaded: {type(e).__name__}: {e}")
            continue
        rep.clear_caches()
        run = AnswerRecipeRun(rep, record['subs'], known, {})
        try:
            for ev in record.get('prelude', []):
                run.bench.step(ev)
            for cc in calls:
                run.do_call(cc)
        except Exception as e:  # noqa
            run0.idx = len(run.answers)
            run0.V('C18', 'replica_crashed', ('recipe', c['moles_storage_unit'], c['volume_storage_unit']),
                   f"under {tag} call {len(run.answers)} made the harness fail: {type(e).__name__}: {e}")
            continue
        # the objects were made with the direct API before the recipe existed: a prelude request inside the rounding band of a
        # feasibility boundary (a round-number dose that fills a round-number well exactly) may legitimately be decided
        # differently by a coarser replica, and everything after it then differs - same rule as for bench scripts
        npre = len(record.get('prelude', []))
        edge = False
        for x, y in zip(run0.log[:npre], run.log[:npre]):
            if x.get('out') != y.get('out') or 'dont_care' in (x.get('status'), y.get('status')) \
                    or min(F(x.get('margin_rel', 1)), F(y.get('margin_rel', 1))) < F(5, 1000):
                edge = True
                break
        if edge:
            run0.stats['prelude_request_at_boundary_unjudged'] += 1
            continue
        # decisions
        diverged = False
        for k, (x, y) in enumerate(zip(run0.answers, run.answers)):
            if x['out'] != y['out']:
                run0.idx = k
                if x['c'] == 'bake' and (run0.near_capacity_fill or run.near_capacity_fill):
                    run0.stats['bake_decision_at_capacity_unjudged'] += 1    # a fill_to step sits in the rounding band of a capacity
                elif x['c'] == 'bake' and (min(run0.min_margin_rel, run.min_margin_rel) < F(5, 1000) or not floors_ok(pre, run0) or not floors_ok(pre, run)):
                    run0.stats['bake_decision_near_boundary_or_floor_unjudged'] += 1
                else:
                    run0.V('C18', 'replicas_disagree_decision', ('recipe.' + x['c'], 'decision'), f"call {k} ({x['c']}): shipped config -> {x['out']}, {tag} -> {y['out']}")
                diverged = True
                break
        if diverged:
            continue
        for v in run.violations:
            if v.known is None and v.fkey() not in base_keys:
                run0.violations.append(Violation('C18', 'config_specific_violation', (v.prop, v.clause, c['moles_storage_unit'], c['volume_storage_unit']),
                                                 v.event, f"only under {tag}: {v.prop}.{v.clause}: {v.detail}"))
                break
        # values are compared only while no amount of any snapshot sits within 1e4 rounding steps (coarsest replica) of zero -
        # the same floor that stops the comparison of bench scripts: a trace (nanomoles next to a mass quantum of 1e-10 g)
        # that a later dilute or create_solution_from divides by is resolved differently by every configuration
        if not floors_ok(pre, run0) or not floors_ok(pre, run):
            run0.stats['recipe_state_below_floor_unjudged'] += 1
            continue
        # bake results in user units
        cmpr = Comparator(cfgs, len(calls))
        cmpr.peak = dict(run0.peak)
        if run0.baked is not None and run.baked is not None:
            for n in run0.baked:
                if n in run.baked:
                    d = cmpr.cmp_state(run0.W, user_state(run0.bench, run0.baked[n]), user_state(run.bench, run.baked[n]), len(run0.steps), f"bake()[{n}] ({tag})")
                    if d:
                        run0.V('C18', 'replicas_disagree_state', ('bake', 'state'), d)
                        break
        a = query_answers(run, calls)
        for x, y in zip(a0, a):
            if x[:4] != y[:4]:
                break
            if x[4] != y[4]:
                vals = [v for v in (x[5], y[5]) if v is not None]
                flat = [abs(t) for v in vals for t in (v if isinstance(v, list) else [v])]
                if x[0] == 'used' and 'ValueError' in (x[4], y[4]) and (not flat or max(flat) <= track_tol(cmpr, run0, x, len(run0.steps))):
                    continue        # net change ~ 0: the sign of rounding noise decides between 0.0 and 'net decrease'
                run0.V('C18', 'replicas_disagree_tracking', (x[0], 'status'), f"{x[:4]}: shipped -> {x[4]}, {tag} -> {y[4]}")
                break
            if x[5] is None or y[5] is None:
                continue
            xs = x[5] if isinstance(x[5], list) else [x[5]]
            ys = y[5] if isinstance(y[5], list) else [y[5]]
            tt = track_tol(cmpr, run0, x, len(run0.steps))
            if cmpr.drifted:
                run0.stats['replica_drifted_comparison_stopped'] += 1
                break
            bad = [(p, q) for p, q in zip(xs, ys) if abs(p - q) > 50 * tt + float(DRIFT) * max(abs(p), abs(q))]
            if bad:
                run0.V('C18', 'replicas_disagree_tracking', (x[0], 'value'), f"{x[:4]}: shipped -> {bad[0][0]!r}, {tag} -> {bad[0][1]!r}")
                break
        run0.stats['probe:replicas_compared'] += 1
        run0.sig.add(('cfg', c['moles_storage_unit'], c['volume_storage_unit'], c['internal_precision']))
    run0.violations[:] = [v for v in run0.violations if v.prop == 'C18']
    return run0


def track_tol(cmpr, run0, x, nsteps):
    """Display step + the coarsest replica's rounding, accumulated over steps and wells, in the unit of the answer."""
    unit = x[3] or 'umol'
    mult, base = M.split_unit(unit)
    W = run0.W
    wells = 96
    worst = F(0)
    for n, ms in W.msubs.items():
        k = ms.per_amount(base)
        ta, _ = cmpr.tol_amt(ms, nsteps)
        worst = max(worst, ta * k)
    return tracking_step(x[3]) + float(worst / mult) * 4


def floors_ok(cmpr, run):
    """No amount of any snapshot of the eager reference sits within 1e4 rounding steps (coarsest replica) of zero."""
    W = run.W
    for sn in run.snap:
        for mo in sn.values():
            vs = [mo] if isinstance(mo, M.MVessel) else [mo.well(c) for c in mo.all_cells()]
            for v in vs:
                if not cmpr.state_floor_ok(W, ('container', v.contents, None, None)):
                    return False
    return True


def tracking_step(unit):
    if unit in (None, 'umol', 'mg'):
        return 0.11
    if unit == 'uL':
        return 1.01
    return 1.1e-3


def run_replay(record, known=None):
    cfgs = record['cfgs']
    rep0 = env.load_replica(cfgs[0], cfg_tag(cfgs[0]))
    rep0.clear_caches()
    if record.get('mode') == 'recipe':
        run0 = AnswerRecipeRun(rep0, record['subs'], known, {})
        for ev in record.get('prelude', []):
            run0.bench.step(ev)
        for c in record['events']:
            run0.do_call(c)
        return finish_recipe(record, run0, known)
    b0 = AnswerBench(rep0, record['subs'], known=known, obs=False)
    for ev in record['events']:
        b0.step(ev)
    return finish_bench(record, b0, known)
