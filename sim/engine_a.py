"""Engine A: one simulated run = seeded history on the bench, all oracles armed."""
from __future__ import annotations

from . import env
from .bench import Bench, STATE_OPS
from .common import derive_rng, HarnessError, digest
from .gen_a import GenA, gen_substances

BASE_OPS = {'transfer': 10, 'remove': 1.5, 'fill_to': 2, 'dilute': 1.5, 'new_container': 1.5, 'new_plate': 0.3,
            'solution': 0.8, 'solution_from': 0.4, 'hold_slice': 0.3}

# which clauses belong to which property check is decided by Violation.prop; the profile only biases the workload
PROFILES = {
    'C01': {'op_w': dict(BASE_OPS, transfer=16), 'same_plate_p': 0.4, 'unit_w': {'L': 4, 'g': 3, 'mol': 3, 'U': 2}},
    'C02': {'op_w': dict(BASE_OPS, transfer=20, remove=0.5, dilute=0.5), 'unit_w': {'L': 3, 'g': 3, 'mol': 3, 'U': 3},
            'q_w': [10, 1, 0.5, 0.2, 0.2, 0.05, 0.5, 2], 'long': True},
    'C03': {'op_w': dict(BASE_OPS, transfer=10, fill_to=4, dilute=2.5, new_container=3),
            'q_w': [3, 2, 1.5, 2, 2, 1, 0.5, 1.5], 'fill_w': [4, 2, 1, 1, 1.5, 1, 1, 1.5, 0.4, 0.4],
            'cap_w': [1, 4, 2, 2, 1.5, 0.6], 'dil_w': [5, 2, 3, 0.3, 3]},
    'C04': {'op_w': dict(BASE_OPS, hold_slice=1.5, remove=3, fill_to=3, dilute=2.5, solution=1.5), 'stale_p': 0.3, 'dil_w': [6, 2, 1.5, 1.5, 1]},
    'C07': {'op_w': dict(BASE_OPS, transfer=12, remove=3, fill_to=3, dilute=0.3, new_plate=0.6, solution=0.3, solution_from=0.1),
            'form_w': [0.5, 4, 3, 3, 3, 4, 0.8], 'same_plate_p': 0.35},
    'C10': {'op_w': dict(BASE_OPS, remove=3, fill_to=3, dilute=2, solution=1.5), 'long': True},
    'C11': {'op_w': dict(BASE_OPS, transfer=5, fill_to=7, dilute=8, solution=1.5, new_container=2.5), 'kind_w': [4, 3, 3], 'p_trace': 0.2},
    'C17': {'op_w': dict(BASE_OPS, remove=8, transfer=6, new_container=2.5), 'kind_w': [3, 3, 3]},
    'C19': {'op_w': dict(BASE_OPS, new_container=3, fill_to=3, dilute=2.5, solution=1.5, solution_from=0.8)},
}
DEFAULT_PROFILE = {'op_w': BASE_OPS}


def make_profile(prop, rng, tier):
    """Swarm: per-run variation on top of the property's base profile."""
    p = dict(PROFILES.get(prop, DEFAULT_PROFILE))
    p['op_w'] = dict(p['op_w'])
    # randomly switch off some op kinds (swarm testing), never the property's main ones
    for op in list(p['op_w']):
        if p['op_w'][op] < 2 and rng.random() < 0.25:
            p['op_w'][op] = 0
    if not any(p['op_w'].values()):
        p['op_w']['transfer'] = 1
    p['magnitude'] = rng.choices(['nL-uL', 'uL-mL', 'mL-L'], weights=[2, 5, 2])[0]
    p['round_numbers'] = rng.random() < 0.5
    p['list_w'] = rng.choice([1, 1, 1, 4])
    p.setdefault('p_trace', rng.choice([0.03, 0.03, 0.3]))
    p['plate_size'] = rng.choices(['small', 'medium', 'large'], weights=[12, 3, 1 if tier == 'thorough' else 0.3])[0]
    p['cache_policy'] = rng.choice(['never', 'always', 'random'])
    lo, hi = (8, 25) if tier == 'quick' else (10, 40)
    if p.get('long'):
        lo, hi = hi - 8, hi
    if p['plate_size'] == 'large':
        lo, hi = 4, 8
    elif p['plate_size'] == 'medium':
        hi = min(hi, 18)
    p['n_events'] = rng.randint(min(lo, hi), hi)
    return p


def new_bench(rep, subs, profile, known=None):
    b = Bench(rep, subs, known=known, cache_policy=profile.get('cache_policy', 'never'))
    from . import oracle_instr
    oracle_instr.install(b)
    return b


def run_generated(prop, seed, run, tier, known=None, fault_plan=None):
    """-> (record, bench).  record = replayable description of the run."""
    rep = env.load_replica()
    rep.clear_caches()
    rng = derive_rng(seed, prop, run)
    profile = make_profile(prop, rng, tier)
    subs = gen_substances(rng, profile)
    b = new_bench(rep, subs, profile, known)
    g = GenA(rng, b, profile)
    events = []
    for ev in g.initial_events():
        events.append(ev)
        b.step(ev)
    while len(events) < profile['n_events']:
        ev = g.next_event()
        events.append(ev)
        if fault_plan is not None:
            fault_plan(b, ev, rng)
        else:
            b.step(ev)
    record = {'engine': 'A', 'property': prop, 'seed': seed, 'run': run, 'tier': tier,
              'profile': {k: profile[k] for k in ('magnitude', 'round_numbers', 'plate_size', 'cache_policy', 'n_events')},
              'subs': subs, 'events': events}
    if fault_plan is None and rng.random() < 0.2:
        # a second "session" in the same process and the same run: substances with the same names but other properties
        # (another lot, another supplier).  Process-global memo tables keyed by partial identity show up here, replayably.
        subs2 = second_session_subs(rng, subs)
        try:
            b2 = new_bench(rep, subs2, dict(profile, cache_policy='never'), known)
        except ValueError:
            return record, b        # the re-drawn properties made a twin coincide with its namesake: no second session
        b2.idx = len(events) - 1
        ev2 = []
        if rng.random() < 0.5:
            # the very same script once more (same names, same quantity strings, same order) - only the lots differ: whatever
            # the library remembers under a key that leaves out a property of the substance is hit head-on
            import copy
            for ev in copy.deepcopy(events):
                ev2.append(ev)
                b2.step(ev)
            b2.stats['probe:second_session_same_script'] += 1
        else:
            g2 = GenA(rng, b2, profile)
            for ev in g2.initial_events():
                ev2.append(ev)
                b2.step(ev)
            for _ in range(rng.randint(4, 12)):
                ev = g2.next_event()
                ev2.append(ev)
                b2.step(ev)
        record['session2'] = {'subs': subs2, 'events': ev2}
        merge_bench(b, b2)
    return record, b


def second_session_subs(rng, subs):
    from .gen_a import dec, loguniform, round_sig
    from fractions import Fraction as F
    out = []
    for spec in subs:
        name, kind, mw, rho, act = spec[:5]
        tail = list(spec[5:])       # a twin keeps the name the library sees
        if kind == 'enzyme':
            val = round_sig(rng, loguniform(rng, 1e-3, 1e6), True)
            out.append([name, kind, None, None, f"{dec(val)} U/g"] + tail)
        elif kind == 'liquid':
            out.append([name, kind, dec(F(repr(round(float(mw) * rng.uniform(0.5, 2), 3))), 8),
                        dec(F(repr(round(float(rho) * rng.uniform(0.5, 2), 4))), 6), None] + tail)
        else:
            out.append([name, kind, dec(F(repr(round(float(mw) * rng.uniform(0.5, 2), 3))), 8), None, None] + tail)
    return out


def merge_bench(b, b2):
    """Fold the second session's findings into the first bench object (which is what the runner summarises)."""
    b.violations.extend(b2.violations)
    b.stats.update(b2.stats)
    b.stats['probe:second_session'] += 1
    b.sig.update(b2.sig)
    b.log.extend(b2.log)
    b.n_ok_state += b2.n_ok_state
    for k, v in b2.max_ratio.items():
        b.max_ratio[k] = max(b.max_ratio.get(k, 0.0), v)


def run_replay(record, known=None, fault_exec=None):
    rep = env.load_replica()
    rep.clear_caches()
    b = new_bench(rep, record['subs'], record.get('profile', {}), known)
    for ev in record['events']:
        if fault_exec is not None and ev.get('fault'):
            fault_exec(b, ev)
        else:
            b.step(ev)
    s2 = record.get('session2')
    if s2:
        b2 = new_bench(rep, s2['subs'], dict(record.get('profile', {}), cache_policy='never'), known)
        b2.idx = len(record['events']) - 1
        for ev in s2['events']:
            b2.step(ev)
        merge_bench(b, b2)
    return b


def log_digest(b):
    return digest([b.log, [v.to_json() for v in b.violations]])
