"""Engine A: one simulated run = seeded history on the bench, all oracles armed."""
from __future__ import annotations

from . import env
from .bench import Bench, STATE_OPS
from .common import derive_rng, HarnessError, digest
from .gen_a import GenA, gen_substances

BASE_OPS = {'transfer': 10, 'remove': 1.5, 'fill_to': 2, 'dilute': 1.5, 'new_container': 1.5, 'new_plate': 0.3,
            'solution': 0.8, 'solution_from': 0.4, 'hold_slice': 0.3}

# which clauses belong to which property check is decided by Violation.prop; the profile only biases the workload
PROFILES = {
    'C01': {'op_w': dict(BASE_OPS, transfer=16), 'same_plate_p': 0.4, 'unit_w': {'L': 4, 'g': 3, 'mol': 3, 'U': 2},
            'form_w': [3, 4, 3, 2, 2, 3, 1.0]},
    'C02': {'op_w': dict(BASE_OPS, transfer=20, remove=0.5, dilute=0.5), 'unit_w': {'L': 3, 'g': 3, 'mol': 3, 'U': 3},
            'q_w': [10, 1, 0.5, 0.2, 0.2, 0.05, 0.5, 2], 'long': True},
    'C03': {'op_w': dict(BASE_OPS, transfer=10, fill_to=4, dilute=2.5, new_container=3, drain_fresh=0.4),
            'q_w': [3, 2, 1.5, 2, 2, 1, 0.5, 1.5], 'fill_w': [4, 2, 1, 1, 1.5, 1, 1, 1.5, 0.4, 0.4],
            'cap_w': [1, 4, 2, 2, 1.5, 0.6], 'dil_w': [5, 2, 3, 0.3, 3], 'sci_notation': True},
    'C04': {'op_w': dict(BASE_OPS, hold_slice=1.5, remove=3, fill_to=3, dilute=2.5, solution=1.5), 'stale_p': 0.3, 'dil_w': [6, 2, 1.5, 1.5, 1]},
    'C07': {'op_w': dict(BASE_OPS, transfer=12, remove=3, fill_to=3, dilute=0.3, new_plate=0.6, solution=0.3, solution_from=0.1, series=0.4),
            'form_w': [0.5, 4, 3, 3, 3, 4, 0.8], 'same_plate_p': 0.35},
    'C10': {'op_w': dict(BASE_OPS, remove=3, fill_to=3, dilute=2, solution=1.5), 'long': True},
    'C11': {'op_w': dict(BASE_OPS, transfer=5, fill_to=7, dilute=8, solution=1.5, new_container=2.5, series=0.5), 'kind_w': [4, 3, 3], 'p_trace': 0.2},
    'C17': {'op_w': dict(BASE_OPS, remove=8, transfer=6, new_container=2.5), 'kind_w': [3, 3, 3]},
    'C19': {'op_w': dict(BASE_OPS, new_container=3, fill_to=3, dilute=2.5, solution=1.5, solution_from=0.8)},
}
DEFAULT_PROFILE = {'op_w': BASE_OPS}


def make_profile(prop, rng, tier):
    """Swarm: per-run variation on top of the property's base profile."""
    p = dict(PROFILES.get(prop, DEFAULT_PROFILE))
    p['op_w'] = dict(p['op_w'])
    # randomly switch off some op kinds (swarm testing), never the property's main ones
    for op in list(p['op_w']):
        if p['op_w'][op] < 2 and rng.random() < 0.25:
            p['op_w'][op] = 0
    if not any(p['op_w'].values()):
        p['op_w']['transfer'] = 1
    p['magnitude'] = rng.choices(['nL-uL', 'uL-mL', 'mL-L'], weights=[2, 5, 2])[0]
    p['round_numbers'] = rng.random() < 0.5
    p['list_w'] = rng.choice([1, 1, 1, 4])
    p.setdefault('p_trace', rng.choice([0.03, 0.03, 0.3]))
    p['plate_size'] = rng.choices(['small', 'medium', 'large'], weights=[12, 3, 1 if tier == 'thorough' else 0.3])[0]
    p['cache_policy'] = rng.choice(['never', 'always', 'random'])
    lo, hi = (8, 25) if tier == 'quick' else (10, 40)
    if p.get('long'):
        lo, hi = hi - 8, hi
    if p['plate_size'] == 'large':
        lo, hi = 4, 8
    elif p['plate_size'] == 'medium':
        hi = min(hi, 18)
    p['n_events'] = rng.randint(min(lo, hi), hi)
    return p


def new_bench(rep, subs, profile, known=None):
    b = Bench(rep, subs, known=known, cache_policy=profile.get('cache_policy', 'never'))
    from . import oracle_instr
    oracle_instr.install(b)
    return b


def run_generated(prop, seed, run, tier, known=None, fault_plan=None):
    """-> (record, bench).  record = replayable description of the run."""
    rep = env.load_replica()
    rep.clear_caches()
    rng = derive_rng(seed, prop, run)
    profile = make_profile(prop, rng, tier)
    subs = gen_substances(rng, profile)
    b = new_bench(rep, subs, profile, known)
    g = GenA(rng, b, profile)
    events = []
    for ev in g.initial_events():
        events.append(ev)
        b.step(ev)
    while len(events) < profile['n_events']:
        ev = g.next_event()
        events.append(ev)
        if fault_plan is not None:
            fault_plan(b, ev, rng)
        else:
            b.step(ev)
    record = {'engine': 'A', 'property': prop, 'seed': seed, 'run': run, 'tier': tier,
              'profile': {k: profile[k] for k in ('magnitude', 'round_numbers', 'plate_size', 'cache_policy', 'n_events')},
              'subs': subs, 'events': events}
    if fault_plan is None and rng.random() < 0.2:
        # a second "session" in the same process and the same run: substances with the same names but other properties
        # (another lot, another supplier).  Process-global memo tables keyed by partial identity show up here, replayably.
        subs2 = second_session_subs(rng, subs)
        try:
            b2 = new_bench(rep, subs2, dict(profile, cache_policy='never'), known)
        except ValueError:
            return record, b        # the re-drawn properties made a twin coincide with its namesake: no second session
        b2.idx = len(events) - 1
        ev2 = []
        if rng.random() < 0.5:
            # the very same script once more (same names, same quantity strings, same order) - only the lots differ: whatever
            # the library remembers under a key that leaves out a property of the substance is hit head-on
            import copy
            for ev in copy.deepcopy(events):
                ev2.append(ev)
                b2.step(ev)
            b2.stats['probe:second_session_same_script'] += 1
        else:
            g2 = GenA(rng, b2, profile)
            for ev in g2.initial_events():
                ev2.append(ev)
                b2.step(ev)
            for _ in range(rng.randint(4, 12)):
                ev = g2.next_event()
                ev2.append(ev)
                b2.step(ev)
        record['session2'] = {'subs': subs2, 'events': ev2}
        merge_bench(b, b2)
    if fault_plan is None and rng.random() < profile.get('p_alias', 0.12):
        record['alias'] = alias_spec(rng, subs, events)
        alias_session(rep, record, b, known)
    if fault_plan is None and rng.random() < profile.get('p_blind', 0.08):
        record['blind'] = True
        blind_session(rep, record, b, known)
    return record, b


def blind_session(rep, record, b, known):
    """The same script without anybody looking: no observer is ever called, no slice is read before it is used, caches are never
    cleared by hand.  Looking at a value must not change what later operations do with it, so every value ever produced is the same."""
    import copy
    ev4 = copy.deepcopy(record['events'])
    for ev in ev4:
        ev.pop('read', None)
        ev.pop('cc', None)
    b4 = Bench(rep, record['subs'], known=known, cache_policy='never', obs=False)
    for ev in ev4:
        b4.step(ev)
    b.stats['probe:blind_session'] += 1
    charge = {'transfer': ('C01', 'C02', 'C07'), 'remove': ('C17',), 'fill_to': ('C11',), 'dilute': ('C11',)}
    for i, (x, y) in enumerate(zip(b.log, b4.log)):
        if x.get('out') != y.get('out'):
            b.idx = i
            for prop in charge.get(x.get('op'), ('C10',)) + ('C04',):
                b.V(prop, 'depends_on_being_observed', (x.get('op'), 'outcome'),
                    f"event {i} ({x.get('op')}) -> {x.get('out')}; in the same script without observer calls and slice reads -> {y.get('out')}")
            return
    W, W4 = b.world, b4.world
    for (name, v), idx in sorted(W.created.items(), key=lambda kv: kv[1]):
        if len(W4.reg.get(name, ())) <= v:
            continue
        d = model_diff(W, W.alpha(W.reg[name][v]), W4.alpha(W4.reg[name][v]))
        if d:
            b.idx = idx
            op = b.log[idx].get('op') if 0 <= idx < len(b.log) else None
            for prop in charge.get(op, ('C10',)) + ('C04',):
                b.V(prop, 'depends_on_being_observed', (op, 'value'),
                    f"{name}@{v} (event {idx}): {d} - the other session ran the same script without observer calls and slice reads")
            return


ODD_NAMES = ['all', 'None', 'water of life', 'a to b', 'mL', 'M', 'V0', 'P0', 'x+y', '(z)', 'well A,1', '%w/v', '10 mL', 'U', "it's", 'a, b',
             'Fill with', '.', '0']


def alias_spec(rng, subs, events):
    """Other names for the same things: what the library sees as the substances' names, and the custom row / column labels of
    the plates.  Nothing else changes - same kinds, same molar masses, same script - so nothing else may change."""
    n = len(subs)
    scheme = rng.choice(['swap', 'case', 'prefix', 'odd', 'odd'])
    real = [s[5] if len(s) > 5 and s[5] else s[0] for s in subs]
    if scheme == 'swap' and len(set(real)) > 1:
        names = real[1:] + real[:1]                        # everybody carries somebody else's name
    elif scheme == 'case':
        base = rng.choice(['water', 'salt', 'ab'])
        names = [''.join(ch.upper() if (i >> k) & 1 else ch for k, ch in enumerate(base)) for i in range(n)]
    elif scheme == 'prefix':
        names = ['NaClO4x'[:2 + i] for i in range(n)]      # every name a prefix of the next
    else:
        names = rng.sample(ODD_NAMES, n) if n <= len(ODD_NAMES) else [f"n{i}" for i in range(n)]
    if len(set(names)) != n:
        names = [f"{x}{i}" for i, x in enumerate(names)]
    labels = {}
    for ev in events:
        if ev.get('op') == 'new_plate':
            for axis in ('rows', 'cols'):
                if isinstance(ev[axis], list):
                    how = rng.choice(['case', 'swap', 'keep'])
                    old = [str(x) for x in ev[axis]]
                    if how == 'swap' and len(old) > 1:
                        new = old[1:] + old[:1]
                    elif how == 'case':
                        new = [''.join(ch.upper() if (i >> k) & 1 else ch.lower() for k, ch in enumerate('lbl')) + ('' if i < 8 else str(i)) for i in range(len(old))]
                    else:
                        new = old
                    labels[f"{ev['name']}:{axis}"] = new
    return {'scheme': scheme, 'names': names, 'labels': labels}


def alias_session(rep, record, b, known):
    import copy
    spec = record['alias']
    subs3 = [list(s[:5]) + [spec['names'][i]] for i, s in enumerate(record['subs'])]
    ev3 = copy.deepcopy(record['events'])
    for ev in ev3:
        if ev.get('op') == 'new_plate':
            for axis in ('rows', 'cols'):
                new = spec['labels'].get(f"{ev['name']}:{axis}")
                if new is not None and isinstance(ev[axis], list) and len(new) == len(ev[axis]):
                    ev[axis] = list(new)
    try:
        b3 = Bench(rep, subs3, known=known, cache_policy='never')     # no instruction oracle: its parser reads names
    except ValueError:
        return
    b3.idx = -1
    for ev in ev3:
        b3.step(ev)
    b.stats['probe:alias_session'] += 1
    charge = {'transfer': ('C01', 'C02', 'C07'), 'remove': ('C17',), 'fill_to': ('C11',), 'dilute': ('C11',)}
    # 1. every event is decided alike
    for i, (x, y) in enumerate(zip(b.log, b3.log)):
        if x.get('out') != y.get('out'):
            b.idx = i
            for prop in charge.get(x.get('op'), ('C10',)) + ('C03',):
                b.V(prop, 'depends_on_names', (x.get('op'), 'outcome'),
                    f"event {i} ({x.get('op')}) -> {x.get('out')}; with the substances called {spec['names']} and labels {spec['labels']} -> {y.get('out')}")
            return
    # 2. every value ever produced is the same value
    W, W3 = b.world, b3.world
    for (name, v), idx in sorted(W.created.items(), key=lambda kv: kv[1]):
        o, o3 = W.reg[name][v], (W3.reg.get(name) or [None] * (v + 1))[v] if len(W3.reg.get(name, ())) > v else None
        if o3 is None:
            continue
        m, m3 = W.alpha(o), W3.alpha(o3)
        d = model_diff(W, m, m3)
        if d:
            b.idx = idx
            op = b.log[idx].get('op') if 0 <= idx < len(b.log) else None
            for prop in charge.get(op, ('C10',)):
                b.V(prop, 'depends_on_names', (op, 'value'),
                    f"{name}@{v} (event {idx}): {d} - the only difference between the two sessions is what the substances "
                    f"({spec['names']}) and plate labels ({spec['labels']}) are called")
            return
    # violations of the oracles themselves that appear only under the other names
    base = set(v.fkey() for v in b.violations)
    for v in b3.violations:
        if v.known is None and v.fkey() not in base:
            v.detail += f" [only with the substances called {spec['names']}, labels {spec['labels']}]"
            b.violations.append(v)
            break


def model_diff(W, m, m3):
    from fractions import Fraction as F
    from . import model as M

    def vessel(a, c, where):
        for n in dict.fromkeys(list(a.contents) + list(c.contents)):
            x, y = a.contents.get(n), c.contents.get(n)
            if x is None or y is None:
                return f"{where}{n} present in one session only"
            if abs(x - y) > 4 * W.q_amt(n) + max(abs(x), abs(y)) * F(1, 10 ** 12):
                return f"{where}{n}: {float(x):.12g} vs {float(y):.12g}"
        return None
    if isinstance(m, M.MPlate) != isinstance(m3, M.MPlate):
        return "a plate in one session, a container in the other"
    if isinstance(m, M.MPlate):
        if m.shape != m3.shape:
            return f"shape {m.shape} vs {m3.shape}"
        for cell in m.all_cells():
            d = vessel(m.well(cell), m3.well(cell), f"well {cell}: ")
            if d:
                return d
        return None
    return vessel(m, m3, '')


def second_session_subs(rng, subs):
    from .gen_a import dec, loguniform, round_sig
    from fractions import Fraction as F
    out = []
    for spec in subs:
        name, kind, mw, rho, act = spec[:5]
        tail = list(spec[5:])       # a twin keeps the name the library sees
        if kind == 'enzyme':
            val = round_sig(rng, loguniform(rng, 1e-3, 1e6), True)
            out.append([name, kind, None, None, f"{dec(val)} U/g"] + tail)
        elif kind == 'liquid':
            out.append([name, kind, dec(F(repr(round(float(mw) * rng.uniform(0.5, 2), 3))), 8),
                        dec(F(repr(round(float(rho) * rng.uniform(0.5, 2), 4))), 6), None] + tail)
        else:
            out.append([name, kind, dec(F(repr(round(float(mw) * rng.uniform(0.5, 2), 3))), 8), None, None] + tail)
    return out


def merge_bench(b, b2):
    """Fold the second session's findings into the first bench object (which is what the runner summarises)."""
    b.violations.extend(b2.violations)
    b.stats.update(b2.stats)
    b.stats['probe:second_session'] += 1
    b.sig.update(b2.sig)
    b.log.extend(b2.log)
    b.n_ok_state += b2.n_ok_state
    for k, v in b2.max_ratio.items():
        b.max_ratio[k] = max(b.max_ratio.get(k, 0.0), v)


def run_replay(record, known=None, fault_exec=None):
    rep = env.load_replica()
    rep.clear_caches()
    b = new_bench(rep, record['subs'], record.get('profile', {}), known)
    for ev in record['events']:
        if fault_exec is not None and ev.get('fault'):
            fault_exec(b, ev)
        else:
            b.step(ev)
    s2 = record.get('session2')
    if s2:
        b2 = new_bench(rep, s2['subs'], dict(record.get('profile', {}), cache_policy='never'), known)
        b2.idx = len(record['events']) - 1
        for ev in s2['events']:
            b2.step(ev)
        merge_bench(b, b2)
    if record.get('alias'):
        alias_session(rep, record, b, known)
    if record.get('blind'):
        blind_session(rep, record, b, known)
    return b


def log_digest(b):
    return digest([b.log, [v.to_json() for v in b.violations]])
