"""Shared small types: violations, seed derivation, run results."""
from __future__ import annotations

import hashlib
import json
import random

DEFAULT_SEED = 20260926


def derive_rng(seed: int, prop: str, run: int, stream: str = '') -> random.Random:
    h = hashlib.sha256(f"{seed}:{prop}:{run}:{stream}".encode()).digest()
    return random.Random(int.from_bytes(h[:16], 'big'))


class Violation:
    __slots__ = ('prop', 'clause', 'key', 'event', 'detail', 'known')

    def __init__(self, prop, clause, key, event, detail, known=None):
        self.prop = prop
        self.clause = clause
        self.key = tuple(key)
        self.event = event
        self.detail = detail
        self.known = known      # id of the known finding that excuses it, or None

    def fkey(self):
        return (self.prop, self.clause) + self.key

    def to_json(self):
        return {'property': self.prop, 'clause': self.clause, 'key': list(self.key), 'event': self.event,
                'detail': self.detail, 'known': self.known}

    def __repr__(self):
        return f"Violation({self.prop}.{self.clause} key={self.key} ev={self.event}: {self.detail})"


class HarnessError(Exception):
    """A failure of the simulator itself (never reported as a VIOLATION)."""


def jdump(obj):
    return json.dumps(obj, sort_keys=True, separators=(',', ':'), default=str)


def digest(obj) -> str:
    return hashlib.sha256(jdump(obj).encode()).hexdigest()
