"""C10: every observer equals the value computed from the contents by definition (exact model), within the
library's configured rounding."""
from __future__ import annotations

import random
from fractions import Fraction as F

from . import model as M

VOL_UNITS = ['nL', 'uL', 'mL', 'cL', 'dL', 'L']
MOL_UNITS = ['nmol', 'umol', 'mmol', 'mol']
CONC_UNITS = ['M', 'mM', 'uM', 'm', 'mol/L', 'mmol/mL', 'g/L', 'mg/mL', 'ug/uL', 'g/g', 'mg/g', 'mol/mol', 'mmol/mol',
              'L/L', 'uL/mL', '%w/w', '%w/v', '%v/v', 'mol/kg', 'g/mol', 'umol/10 uL', 'mg/100 mL', 'g/10 g', 'L/mol', 'mL/g']
ENZ_CONC_UNITS = ['U/mL', 'U/L', 'U/uL', 'U/g', 'U/mg', 'U/10 uL', 'U/U', 'g/L', 'mg/mL', 'L/L', 'g/g']


def _round_tol(p):
    return F(1, 2 * 10 ** p)


def check_container(b, c, key, rng):
    W = b.world
    mv = W.alpha_container(c)
    u = W.units
    mvol = W.model.volume(mv)
    tolv = W.tol_volume(mv)
    # get_volume in two units
    for unit in rng.sample(VOL_UNITS, 2) + [None]:
        out = b.call(lambda: c.get_volume(unit) if unit else c.get_volume())
        uu = unit or u.cfg['volume_display_unit']
        if out[0] != 'ok':
            b.V('C10', 'observer_raised', key + ('get_volume',), f"get_volume({unit!r}) raised {out[0]}: {out[1]}")
            continue
        mult, _ = M.split_unit(uu)
        exp = mvol / mult
        tol = tolv / mult + _round_tol(u.p) + abs(exp) * F(1, 10 ** 12)
        err = abs(F(out[1]) - exp)
        b.note_ratio('get_volume', err, tol)
        b.stats['obs:get_volume'] += 1
        if err > tol:
            b.V('C10', 'get_volume', key + (uu,), f"{c.name}.get_volume({uu!r}) = {out[1]!r}, contents give {float(exp):.12g}")
    # get_substances
    out = b.call(lambda: c.get_substances())
    if out[0] != 'ok':
        b.V('C10', 'observer_raised', key + ('get_substances',), f"get_substances raised {out[0]}: {out[1]}")
    else:
        names = sorted(W.key_of(s) for s in out[1])
        present = sorted(n for n, a in mv.contents.items() if a > 20 * W.q_amt(n))
        listed = set(mv.contents)
        b.stats['obs:get_substances'] += 1
        if any(n not in names for n in present) or any(n not in listed for n in names):
            b.V('C10', 'get_substances', key, f"{c.name}.get_substances() = {names}, contents hold {sorted(listed)}")
    # get_concentration
    subs = sorted(W.msubs)
    for _ in range(3):
        sname = rng.choice(subs)
        ms = W.msubs[sname]
        units = rng.choice(ENZ_CONC_UNITS if ms.is_enzyme else CONC_UNITS)
        try:
            mult, num, den = M.parse_concentration('1 ' + units, W.model.wv)
        except M.ModelError:
            continue
        top = ms.per_amount(num) * mv.contents.get(sname, F(0))
        bottom = W.model.total(mv, den)
        if top != 0 and bottom <= 0:
            continue            # undefined by definition; not judged
        exp = F(0) if top == 0 else top / bottom / mult
        # allowance for the library's rounding of the denominator volume *in the denominator unit*
        rel = F(1, 10 ** 9)
        if den == 'L' and top != 0:
            # the library divides by get_volume('L'): the volume rounded to p decimals *in litres*
            x = (_round_tol(u.p) + tolv) / bottom if bottom > 0 else F(1)
            rel += x * F(11, 10) + 2 * x * x
        else:
            rel += W.slack_total(mv, den) * 20 / bottom if bottom > 0 else 0
        rel += (20 * W.q_amt(sname) / mv.contents[sname]) if mv.contents.get(sname, 0) > 0 else 0
        if rel > F(1, 1000):
            b.stats['obs:conc_skipped_ill_conditioned'] += 1
            continue
        out = b.call(lambda: c.get_concentration(W.rsubs[sname], units))
        b.stats['obs:get_concentration'] += 1
        if out[0] != 'ok':
            if num == 'U' and not ms.is_enzyme:
                continue
            b.V('C10', 'observer_raised', key + ('get_concentration', num, den),
                f"get_concentration({sname}, {units!r}) raised {out[0]}: {out[1]}")
            continue
        b.allowances['get_concentration_rel'] = max(b.allowances.get('get_concentration_rel', 0.0), float(rel))
        tol = abs(exp) * rel + _round_tol(u.p)
        err = abs(F(out[1]) - exp)
        b.note_ratio('get_concentration', err, tol)
        if err > tol:
            b.V('C10', 'get_concentration', key + (num, den, ms.kind),
                f"{c.name}.get_concentration({sname}, {units!r}) = {out[1]!r}, definition gives {float(exp):.12g}")


def units_den_unit(units, wv):
    """The unit string the library passes to get_volume for the denominator."""
    if '/' not in units:
        return 'L' if units.endswith('M') else 'kg'
    for tag, repl in (('%v/v', 'L/L'), ('%w/w', 'g/g'), ('%w/v', wv)):
        if units.endswith(tag):
            units = repl
    den = units.split('/')[1].split()
    return den[-1]


def rounded_to(x, d):
    x = float(x)
    return abs(x - round(x, d)) <= 1e-9 * max(1.0, abs(x))


def check_plate(b, p, key, rng):
    W = b.world
    u = W.units
    mp = W.alpha_plate(p)
    cells = mp.all_cells()
    # get_volumes(unit)
    for unit in [None, rng.choice(VOL_UNITS)]:
        uu = unit or u.cfg['volume_display_unit']
        out = b.call(lambda: p.get_volumes(unit=unit))
        b.stats['obs:get_volumes'] += 1
        if out[0] != 'ok':
            b.V('C10', 'observer_raised', key + ('get_volumes',), f"get_volumes(unit={unit!r}) raised {out[0]}: {out[1]}")
            continue
        arr = out[1]
        mult, _ = M.split_unit(uu)
        d = u.precision(uu)
        if not all(rounded_to(x, d) for x in arr.flatten()):
            b.V('C10', 'not_rounded', key + ('get_volumes', uu, unit is None),
                f"{p.name}.get_volumes(unit={unit!r}) = {arr.flatten()[:4].tolist()}... is not rounded to the configured precision of {uu} ({d} decimals)")
        total_exp = F(0)
        for (r, c) in cells:
            mv = mp.well((r, c))
            exp = W.model.volume(mv) / mult
            total_exp += exp
            tol = _round_tol(d) + (W.tol_volume(mv) / mult) + _round_tol(u.p) + abs(exp) * F(1, 10 ** 12)
            if abs(F(float(arr[r, c])) - exp) > tol:
                b.V('C10', 'get_volumes', key + (uu,), f"{p.name}.get_volumes(unit={uu!r})[{r},{c}] = {arr[r, c]!r}, contents give {float(exp):.12g}")
                break
        out2 = b.call(lambda: p.get_volume(unit=uu))
        b.stats['obs:plate_get_volume'] += 1
        if out2[0] != 'ok':
            b.V('C10', 'observer_raised', key + ('get_volume',), f"Plate.get_volume({uu!r}) raised {out2[0]}")
        else:
            tol = len(cells) * (_round_tol(d) + _round_tol(u.p)) + sum((W.tol_volume(mp.well(c)) for c in cells), F(0)) / mult \
                + abs(total_exp) * F(1, 10 ** 11)
            if abs(F(float(out2[1])) - total_exp) > tol:
                b.V('C10', 'plate_get_volume', key + (uu,), f"{p.name}.get_volume({uu!r}) = {out2[1]!r}, wells add up to {float(total_exp):.12g}")
    subs = sorted(W.msubs)
    # get_volumes(substance, unit)
    sname = rng.choice(subs)
    ms = W.msubs[sname]
    unit = rng.choice(VOL_UNITS)
    out = b.call(lambda: p.get_volumes(substance=W.rsubs[sname], unit=unit))
    b.stats['obs:get_volumes_substance'] += 1
    if out[0] != 'ok':
        b.V('C10', 'observer_raised', key + ('get_volumes_substance',), f"get_volumes({sname}, {unit!r}) raised {out[0]}: {out[1]}")
    else:
        mult, _ = M.split_unit(unit)
        d = u.precision(unit)
        for (r, c) in cells:
            a = mp.well((r, c)).contents.get(sname, F(0))
            exp = a * ms.per_amount('L') / mult
            tol = _round_tol(d) + 20 * W.q_amt(sname) * ms.per_amount('L') / mult + abs(exp) * F(1, 10 ** 12)
            if abs(F(float(out[1][r, c])) - exp) > tol:
                b.V('C10', 'get_volumes_substance', key + (unit, ms.kind),
                    f"{p.name}.get_volumes({sname}, {unit!r})[{r},{c}] = {out[1][r, c]!r}, contents give {float(exp):.12g}")
                break
    # get_moles(substance, unit)
    sname = rng.choice(subs)
    ms = W.msubs[sname]
    unit = rng.choice(MOL_UNITS)
    out = b.call(lambda: p.get_moles(W.rsubs[sname], unit=unit))
    b.stats['obs:get_moles'] += 1
    if out[0] != 'ok':
        b.V('C10', 'observer_raised', key + ('get_moles',), f"get_moles({sname}, {unit!r}) raised {out[0]}: {out[1]}")
    else:
        mult, _ = M.split_unit(unit)
        d = u.precision(unit)
        if not all(rounded_to(x, d) for x in out[1].flatten()):
            b.V('C10', 'not_rounded', key + ('get_moles', unit), f"{p.name}.get_moles({sname}, {unit!r}) is not rounded to {d} decimals")
        for (r, c) in cells:
            a = mp.well((r, c)).contents.get(sname, F(0))
            exp = a * ms.per_amount('mol') / mult
            tol = _round_tol(d) + 20 * W.q_amt(sname) / mult + abs(exp) * F(1, 10 ** 12)
            if abs(F(float(out[1][r, c])) - exp) > tol:
                b.V('C10', 'get_moles', key + (unit, ms.kind),
                    f"{p.name}.get_moles({sname}, {unit!r})[{r},{c}] = {out[1][r, c]!r}, contents give {float(exp):.12g}")
                break
    # several substances at once: the answer is the rounded sum, not the sum of rounded parts
    if len(subs) >= 2:
        pair = rng.sample(subs, 2)
        unit = rng.choice(MOL_UNITS)
        lst = [W.rsubs[n] for n in pair]
        out = b.call(lambda: p.get_moles(lst, unit=unit))
        b.stats['obs:get_moles_list'] += 1
        if len(lst) != len(pair) or any(a is not W.rsubs[n] for a, n in zip(lst, pair)):
            # the list is the caller's: asking a question must not edit it
            b.V('C04', 'argument_list_mutated', key + ('get_moles',),
                f"the list of substances passed to {p.name}.get_moles held {pair} and holds {[getattr(x, 'name', x) for x in lst]} afterwards")
        if out[0] != 'ok':
            b.V('C10', 'observer_raised', key + ('get_moles_list',), f"get_moles({pair}, {unit!r}) raised {out[0]}: {out[1]}")
        else:
            mult, _ = M.split_unit(unit)
            d = u.precision(unit)
            for (r, c) in cells:
                exp = sum((mp.well((r, c)).contents.get(n, F(0)) * W.msubs[n].per_amount('mol') for n in pair), F(0)) / mult
                tol = _round_tol(d) + sum((20 * W.q_amt(n) for n in pair), F(0)) / mult + abs(exp) * F(1, 10 ** 12)
                if abs(F(float(out[1][r, c])) - exp) > tol:
                    b.V('C10', 'get_moles', key + (unit, 'list'),
                        f"{p.name}.get_moles({pair}, {unit!r})[{r},{c}] = {out[1][r, c]!r}, contents give {float(exp):.12g}")
                    break
        unit = rng.choice(VOL_UNITS)
        lst = [W.rsubs[n] for n in pair]
        out = b.call(lambda: p.get_volumes(substance=lst, unit=unit))
        b.stats['obs:get_volumes_list'] += 1
        if len(lst) != len(pair) or any(a is not W.rsubs[n] for a, n in zip(lst, pair)):
            b.V('C04', 'argument_list_mutated', key + ('get_volumes',),
                f"the list of substances passed to {p.name}.get_volumes held {pair} and holds {[getattr(x, 'name', x) for x in lst]} afterwards")
        if out[0] != 'ok':
            b.V('C10', 'observer_raised', key + ('get_volumes_list',), f"get_volumes({pair}, {unit!r}) raised {out[0]}: {out[1]}")
        else:
            mult, _ = M.split_unit(unit)
            d = u.precision(unit)
            for (r, c) in cells:
                exp = sum((mp.well((r, c)).contents.get(n, F(0)) * W.msubs[n].per_amount('L') for n in pair), F(0)) / mult
                tol = _round_tol(d) + sum((20 * W.q_amt(n) * W.msubs[n].per_amount('L') for n in pair), F(0)) / mult + abs(exp) * F(1, 10 ** 12)
                if abs(F(float(out[1][r, c])) - exp) > tol:
                    b.V('C10', 'get_volumes_substance', key + (unit, 'list'),
                        f"{p.name}.get_volumes({pair}, {unit!r})[{r},{c}] = {out[1][r, c]!r}, contents give {float(exp):.12g}")
                    break
    # no substance at all: nothing of nothing is in every well
    if rng.random() < 0.3:
        unit = rng.choice(VOL_UNITS)
        empty = rng.choice([[], (), set()])
        out = b.call(lambda: p.get_volumes(substance=empty, unit=unit))
        b.stats['obs:get_volumes_empty_list'] += 1
        if out[0] == 'ok' and any(float(out[1][r, c]) != 0 for (r, c) in cells):
            b.V('C10', 'get_volumes_substance', key + (unit, 'empty-list'),
                f"{p.name}.get_volumes({empty!r}, {unit!r}) = {out[1].flatten()[:4].tolist()}...: the volume of no substance at all is 0 in every well")
        out = b.call(lambda: p.get_moles(list(empty), unit='umol'))
        if out[0] == 'ok' and any(float(out[1][r, c]) != 0 for (r, c) in cells):
            b.V('C10', 'get_moles', key + ('umol', 'empty-list'),
                f"{p.name}.get_moles([], 'umol') = {out[1].flatten()[:4].tolist()}...: the amount of no substance at all is 0 in every well")
    # get_substances
    out = b.call(lambda: p.get_substances())
    b.stats['obs:plate_get_substances'] += 1
    if out[0] != 'ok':
        b.V('C10', 'observer_raised', key + ('plate_get_substances',), f"Plate.get_substances raised {out[0]}: {out[1]}")
    else:
        names = set(W.key_of(s) for s in out[1])
        present, listed = set(), set()
        for cell in cells:
            mv = mp.well(cell)
            listed |= set(mv.contents)
            present |= set(n for n, a in mv.contents.items() if a > 20 * W.q_amt(n))
        if not present <= names or not names <= listed:
            b.V('C10', 'plate_get_substances', key, f"{p.name}.get_substances() = {sorted(names)}, wells hold {sorted(listed)}")


def check_answer_owned(b, key, label, fn):
    """What an observer hands out belongs to the caller: post-processing the returned array or set in place (scaling it,
    masking it, discarding an element) must not change what the object answers next time."""
    import numpy
    a = b.call(fn)
    if a[0] != 'ok':
        return
    x = a[1]
    try:
        if isinstance(x, numpy.ndarray) and x.size:
            before = x.copy()
            x *= 0
            x -= 7
            same = lambda y: isinstance(y, numpy.ndarray) and y.shape == before.shape and bool((y == before).all())  # noqa: E731
        elif isinstance(x, set):
            before = set(x)
            x.clear()
            x.add('scribble')
            same = lambda y: set(y) == before  # noqa: E731
        else:
            return
    except (ValueError, TypeError, AttributeError):
        return              # read-only: nothing the caller can spoil
    b.stats['obs:answer_owned_checked'] += 1
    y = b.call(fn)
    if y[0] != 'ok' or not same(y[1]):
        b.V("C10", "answer_aliased", ("observer", label),
            f"{label}: after the caller modified the returned {type(x).__name__} in place, the same question is answered "
            f"{y[1] if y[0] == 'ok' else y[0]!r} (before: {before!r})")
        # undo the damage so that the rest of the run judges the library, not the scribble
        if isinstance(x, set):
            x.clear()
            x.update(before)
        else:
            x[...] = before


def check_observers(b, ev, named, key):
    rng = random.Random(ev.get('obs', 0) * 1000003 + b.idx)
    rep = b.rep
    W = b.world
    for name, obj in named:
        if rng.random() < 0.3:
            subs = sorted(W.msubs)
            sname = rng.choice(subs)
            if isinstance(obj, rep.Container):
                check_answer_owned(b, key, 'get_substances', lambda: obj.get_substances())
            else:
                which = rng.choice(['get_volumes', 'get_volumes_substance', 'get_moles', 'get_substances', 'slice_get_volumes'])
                fn = {'get_volumes': lambda: obj.get_volumes(unit='uL'),
                      'get_volumes_substance': lambda: obj.get_volumes(substance=W.rsubs[sname], unit='uL'),
                      'get_moles': lambda: obj.get_moles(W.rsubs[sname], unit='umol'),
                      'get_substances': lambda: obj.get_substances(),
                      'slice_get_volumes': lambda: obj[:].get_volumes(unit='uL')}[which]
                check_answer_owned(b, key, which, fn)
        if isinstance(obj, rep.Container):
            check_container(b, obj, key, rng)
        elif isinstance(obj, rep.Plate):
            check_plate(b, obj, key, rng)
            # one well as a container too
            flat = obj.wells.flatten()
            check_container(b, flat[rng.randrange(len(flat))], key, rng)
