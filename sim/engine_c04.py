"""C04 engine: (1) complete enumeration of fault instants for a fixed corpus of operations,
(2) seeded Engine-A histories in which a fraction of the events carry a fault at a seeded instant,
(3) recipe programs with faults inside bake() (added by engine_b when available)."""
from __future__ import annotations

from . import env, faults
from .common import derive_rng
from .engine_a import make_profile, new_bench
from .gen_a import GenA, gen_substances

SUBS = [["water", "liquid", "18.0153", "1", None], ["NaCl", "solid", "58.4428", None, None],
        ["amylase", "enzyme", None, None, "10 U/mg"], ["ethanol", "liquid", "46.07", "0.789", None]]

PREFIX = [
    {"op": "new_container", "name": "V0", "cap": None, "contents": [["water", "10 mL"], ["NaCl", "0.5 g"], ["amylase", "2 U"]]},
    {"op": "new_container", "name": "V1", "cap": "5 mL", "contents": [["ethanol", "1 mL"]]},
    {"op": "new_container", "name": "V2", "cap": "1 mL", "contents": []},
    {"op": "new_plate", "name": "P0", "cap": "1 mL", "rows": 2, "cols": 3},
    {"op": "new_plate", "name": "P1", "cap": "500 uL", "rows": 2, "cols": 2},
    {"op": "transfer", "src": ["V0", -1], "dst": ["P0", -1, {"k": "all"}], "q": "200 uL"},
    {"op": "transfer", "src": ["V1", -1], "dst": ["P0", -1, {"k": "row", "r": 1, "form": "int"}], "q": "50 uL"},
    {"op": "transfer", "src": ["V0", -1], "dst": ["P0", -1, {"k": "cell", "r": 2, "c": 3, "form": "str"}], "q": "700 uL"},
    {"op": "transfer", "src": ["V0", -1], "dst": ["P1", -1, {"k": "rect", "r": [1, 2, None], "c": 1}], "q": "100 uL"},
]

ROW1 = {"k": "row", "r": 1, "form": "int"}
ROW2 = {"k": "row", "r": 2, "form": "lab"}
CELL = lambda r, c: {"k": "cell", "r": r, "c": c, "form": "tup"}  # noqa: E731

TARGETS = [
    ("c>c vol", {"op": "transfer", "src": ["V0", -1], "dst": ["V1", -1], "q": "1 mL"}),
    ("c>c mass", {"op": "transfer", "src": ["V0", -1], "dst": ["V1", -1], "q": "500 mg"}),
    ("c>c mol", {"op": "transfer", "src": ["V0", -1], "dst": ["V1", -1], "q": "2 mmol"}),
    ("c>c act", {"op": "transfer", "src": ["V0", -1], "dst": ["V1", -1], "q": "0.5 U"}),
    ("c>c overflow", {"op": "transfer", "src": ["V0", -1], "dst": ["V2", -1], "q": "3 mL"}),
    ("c>c overdraw", {"op": "transfer", "src": ["V1", -1], "dst": ["V0", -1], "q": "3 mL"}),
    ("c>N row", {"op": "transfer", "src": ["V0", -1], "dst": ["P0", -1, ROW1], "q": "20 uL"}),
    ("c>N all", {"op": "transfer", "src": ["V1", -1], "dst": ["P1", -1, {"k": "all"}], "q": "10 mg"}),
    ("c>N overflow at a later well", {"op": "transfer", "src": ["V0", -1], "dst": ["P0", -1, {"k": "all"}], "q": "150 uL"}),
    ("N>c row", {"op": "transfer", "src": ["P0", -1, ROW1], "dst": ["V1", -1], "q": "30 uL"}),
    ("N>c plate", {"op": "transfer", "src": ["P0", -1, {"k": "all"}], "dst": ["V1", -1], "q": "1 mg"}),
    ("N>c overdraw at a later well", {"op": "transfer", "src": ["P0", -1, {"k": "all"}], "dst": ["V1", -1], "q": "240 uL"}),
    ("1>N", {"op": "transfer", "src": ["P0", -1, CELL(2, 3)], "dst": ["P1", -1, {"k": "all"}], "q": "25 uL"}),
    ("1>N same plate", {"op": "transfer", "src": ["P0", -1, CELL(2, 3)], "dst": ["P0", -1, ROW1], "q": "25 uL"}),
    ("N>1", {"op": "transfer", "src": ["P0", -1, ROW1], "dst": ["P1", -1, CELL(2, 2)], "q": "25 uL"}),
    ("N>N plates", {"op": "transfer", "src": ["P0", -1, {"k": "rect", "r": [1, 2, None], "c": [1, 2, None]}], "dst": ["P1", -1, {"k": "all"}], "q": "0.01 mmol"}),
    ("N>N same plate", {"op": "transfer", "src": ["P0", -1, ROW1], "dst": ["P0", -1, ROW2], "q": "40 uL"}),
    ("N>N overflow at a later pair", {"op": "transfer", "src": ["P0", -1, ROW1], "dst": ["P0", -1, ROW2], "q": "150 uL"}),
    ("Plate source", {"op": "transfer", "src": ["P1", -1, {"k": "all"}], "dst": ["P0", -1, {"k": "rect", "r": [1, 2, None], "c": [1, 2, None]}], "q": "10 uL"}),
    ("bad shapes", {"op": "transfer", "src": ["P0", -1, ROW1], "dst": ["P1", -1, {"k": "all"}], "q": "10 uL"}),
    ("stepped slice", {"op": "transfer", "src": ["V0", -1], "dst": ["P0", -1, {"k": "rect", "r": [None, None, None], "c": [1, None, 2]}], "q": "10 uL"}),
    ("remove container substance", {"op": "remove", "tgt": ["V0", -1], "what": "water"}),
    ("remove container class", {"op": "remove", "tgt": ["V0", -1], "what": "solid"}),
    ("remove plate", {"op": "remove", "tgt": ["P0", -1, {"k": "all"}], "what": "liquid"}),
    ("remove slice", {"op": "remove", "tgt": ["P0", -1, ROW1], "what": "ethanol"}),
    ("fill_to container", {"op": "fill_to", "tgt": ["V1", -1], "solvent": "water", "q": "3 mL"}),
    ("fill_to container mass", {"op": "fill_to", "tgt": ["V1", -1], "solvent": "ethanol", "q": "2 g"}),
    ("fill_to container refused", {"op": "fill_to", "tgt": ["V1", -1], "solvent": "water", "q": "9 mL"}),
    ("fill_to slice", {"op": "fill_to", "tgt": ["P0", -1, ROW1], "solvent": "water", "q": "400 uL"}),
    ("fill_to plate refused at a later well", {"op": "fill_to", "tgt": ["P0", -1, {"k": "all"}], "solvent": "water", "q": "400 uL"}),
    ("dilute", {"op": "dilute", "tgt": ["V0", -1], "solute": "NaCl", "conc": "0.2 M", "solvent": "water"}),
    ("dilute rename other solvent", {"op": "dilute", "tgt": ["V0", -1], "solute": "NaCl", "conc": "1 %w/w", "solvent": "ethanol", "name": "D1"}),
    ("dilute refused", {"op": "dilute", "tgt": ["V0", -1], "solute": "NaCl", "conc": "3 M", "solvent": "water"}),
    ("new_container", {"op": "new_container", "name": "V9", "cap": "20 mL", "contents": [["water", "5 mL"], ["NaCl", "1 g"], ["amylase", "3 U"]]}),
    ("new_container refused", {"op": "new_container", "name": "V9", "cap": "2 mL", "contents": [["water", "1 mL"], ["ethanol", "5 mL"]]}),
    ("new_plate", {"op": "new_plate", "name": "P9", "cap": "100 uL", "rows": 2, "cols": ["x", "y"]}),
    ("solution pure solvent", {"op": "solution", "name": "Q1", "solutes": ["NaCl"], "solvent": "water", "kwargs": {"concentration": "0.5 M", "total_quantity": "10 mL"}}),
    ("solution container solvent", {"op": "solution", "name": "Q2", "solutes": ["NaCl"], "solvent": ["V1", -1], "kwargs": {"concentration": "10 mg/mL", "total_quantity": "0.5 mL"}}),
    ("solution two solutes", {"op": "solution", "name": "Q3", "solutes": ["NaCl", "amylase"], "solvent": "water", "aslist": True, "kwargs": {"quantity": ["1 g", "5 U"], "total_quantity": "20 mL"}}),
    ("solution_from", {"op": "solution_from", "src": ["V0", -1], "solute": "NaCl", "conc": "0.1 M", "solvent": "water", "q": "5 mL", "name": "F1"}),
    ("solution_from container solvent", {"op": "solution_from", "src": ["V0", -1], "solute": "NaCl", "conc": "0.1 M", "solvent": ["V1", -1], "q": "1 mL", "name": "F2"}),
    # operations that have nothing to do - where "no need to copy" shortcuts live
    ("fill_to container already at the level", {"op": "fill_to", "tgt": ["V1", -1], "solvent": "ethanol", "q": "1 mL"}),
    ("fill_to slice already at the level", {"op": "fill_to", "tgt": ["P0", -1, ROW1], "solvent": "water", "q": "250 uL"}),
    ("transfer of nothing", {"op": "transfer", "src": ["V0", -1], "dst": ["V1", -1], "q": "0 mL"}),
    ("transfer of nothing into a slice", {"op": "transfer", "src": ["V0", -1], "dst": ["P0", -1, ROW1], "q": "0 uL"}),
    ("remove what is not there", {"op": "remove", "tgt": ["V1", -1], "what": "NaCl"}),
    ("remove from a slice what is not there", {"op": "remove", "tgt": ["P1", -1, {"k": "all"}], "what": "ethanol"}),
]
N_CORPUS = len(TARGETS)


def corpus_record(i):
    label, target = TARGETS[i]
    return {'engine': 'C04', 'mode': 'enumerate', 'property': 'C04', 'run': i, 'label': label, 'subs': SUBS,
            'events': [dict(e) for e in PREFIX] + [dict(target)]}


def run_enumeration(record, known=None, kinds=('KeyboardInterrupt', 'MemoryError'), stride=1):
    """All fault instants k = 1..n of the last event, for each exception kind; deepcopy-call faults j = 1..m."""
    rep = env.load_replica()
    rep.clear_caches()
    b = new_bench(rep, record['subs'], {}, known)
    for ev in record['events'][:-1]:
        b.step(ev)
    target = record['events'][-1]
    only = record.get('only')       # replay of one instant: {'kind':..., 'k':...}
    built = faults.build_call(b, target)
    if built is None:
        raise RuntimeError(f"corpus target not executable: {target}")
    # count
    rep.clear_caches()
    thunk, args = built
    tr = faults.LineTracer(include_copy=False)
    out0 = tr.run(lambda: faults.call_catching(thunk))
    n = tr.n
    fp0 = faults.result_fp(rep, out0)
    cfg = faults.config_fp(rep)
    b.idx = len(record['events']) - 1
    plans = []
    if only:
        plans = [only]
    else:
        for kind in kinds:
            plans += [{'kind': 'line', 'exc': kind, 'k': k} for k in range(1, n + 1, stride)]
        rep.clear_caches()
        with faults.DeepcopyFault(rep) as df:
            faults.call_catching(faults.build_call(b, target)[0])
        plans += [{'kind': 'deepcopy', 'j': j} for j in range(1, df.n + 1)]
    b.stats['enum:line_events'] = n
    for plan in plans:
        rep.clear_caches()
        thunk, args = faults.build_call(b, target)
        arg_fps = [faults.fingerprint(rep, a) for a in args]
        if plan['kind'] == 'line':
            tr = faults.LineTracer(plan['k'], plan['exc'], include_copy=False)
            out1 = tr.run(lambda: faults.call_catching(thunk))
            fired = tr.fired_at is not None
            kindname = 'line-' + plan['exc']
            at = plan['k']
        else:
            with faults.DeepcopyFault(rep, plan['j']) as df:
                out1 = faults.call_catching(thunk)
            fired = df.fired
            kindname = 'deepcopy-MemoryError'
            at = plan['j']
        if fired:
            b.stats['fault:' + kindname] += 1
            if not out1[0].startswith('injected:'):
                b.stats['fault:absorbed'] += 1
        else:
            b.stats['fault:not_fired'] += 1
        nv = len(b.violations)
        faults.check_after_fault(b, target, arg_fps, args, cfg, f"fault {kindname}@{at}/{n}", kindname)
        for v in b.violations[nv:]:
            v.key = v.key + (record.get('label', ''),)
            v.detail += f" [replay instant: {plan}]"
        if len(b.violations) > 20:
            break
    # recovery
    rep.clear_caches()
    out2 = faults.call_catching(faults.build_call(b, target)[0])
    if faults.result_fp(rep, out2) != fp0:
        b.V('C04', 'recovery_differs', (target['op'], 'enumeration', record.get('label', '')),
            "after the enumerated faults the same call gives a different result")
    else:
        b.stats['probe:recovery_identical'] += 1
    b.sig.add(('enumerate', record.get('label'), n, out0[0]))
    b.n_ok_state = 2
    b.stats['enum:instants'] = len(plans)
    # finally the plain step with all oracles
    b.step(target)
    return b


FAULT_KINDS = [('line', 'KeyboardInterrupt'), ('line', 'MemoryError'), ('deepcopy', 'MemoryError')]


def recipe_with_bake_fault(record, known, fault):
    """Replay a recipe program; the first bake() runs with an injected fault; every object handed to the recipe (and every
    slice the user built for it) must be unchanged afterwards.  fault: {'kind':'line','exc':..,'frac'|'k':..}"""
    from . import engine_b
    from .recipe_exec import RecipeRun
    rep = env.load_replica()

    def prefix():
        rep.clear_caches()
        run = RecipeRun(rep, record['subs'], known, record.get('profile', {}))
        for ev in record.get('prelude', []):
            run.bench.step(ev)
        for c in record['events']:
            if c['c'] == 'bake':
                return run
            run.do_call(c)
        return None
    run = prefix()
    if run is None:
        return None
    tr = faults.LineTracer(include_copy=True)
    tr.run(lambda: faults.call_catching(run.recipe.bake))
    n = tr.n
    if n == 0:
        return None
    if 'k' not in fault:
        fault['k'] = max(1, min(n, int(round(fault['frac'] * n)) or 1))
    fault['n'] = n
    run = prefix()
    tr = faults.LineTracer(min(fault['k'], n), fault.get('exc', 'KeyboardInterrupt'))
    out = tr.run(lambda: faults.call_catching(run.recipe.bake))
    run.idx = len(record['events'])
    kind = 'bake-line-' + fault.get('exc', 'KeyboardInterrupt')
    if tr.fired_at is not None:
        run.stats['fault:' + kind] += 1
        if not out[0].startswith('injected:'):
            run.stats['fault:absorbed'] += 1
    nv = len(run.violations)
    run.check_handles('bake')
    for v in run.violations[nv:]:
        v.clause = 'mutated_after_fault'
        v.key = ('recipe.bake', kind, v.key[-1])
        v.detail = f"fault {kind}@{fault['k']}/{n}: " + v.detail
    run.sig.add(('fault', 'recipe.bake', kind, min(4, (fault['k'] - 1) * 5 // max(n, 1))))
    return run


def run_recipe_mode(prop, seed, run_idx, tier, known):
    from . import engine_b
    rng = derive_rng(seed, prop + ':bakefault', run_idx)
    record, run = engine_b.run_generated('C04', seed, run_idx, tier, known)
    record['engine'] = 'C04'
    record['mode'] = 'recipe'
    exc = rng.choice(['KeyboardInterrupt', 'MemoryError'])
    frac = rng.uniform(0.8, 1.0) if rng.random() < 0.33 else rng.uniform(0.0, 1.0)
    record['bake_fault'] = {'kind': 'line', 'exc': exc, 'frac': round(frac, 6)}
    frun = recipe_with_bake_fault(record, known, record['bake_fault'])
    if frun is not None:
        run.violations.extend(v for v in frun.violations if v.prop == 'C04' and v.clause == 'mutated_after_fault')
        run.stats.update({k: v for k, v in frun.stats.items() if k.startswith('fault:')})
        run.sig.update(t for t in frun.sig if t and t[0] == 'fault')
    return record, run


def run_generated(prop, seed, run, tier, known=None):
    if run >= N_CORPUS and (run - N_CORPUS) % 3 == 2:
        return run_recipe_mode(prop, seed, run, tier, known)
    if run < N_CORPUS:
        rec = corpus_record(run)
        stride = 1
        kinds = ('KeyboardInterrupt', 'MemoryError') if tier == 'thorough' else (('KeyboardInterrupt',) if run % 2 else ('MemoryError',))
        rec['kinds'] = list(kinds)
        return rec, run_enumeration(rec, known, kinds=kinds, stride=stride)
    rep = env.load_replica()
    rep.clear_caches()
    rng = derive_rng(seed, prop, run)
    profile = make_profile(prop, rng, tier)
    profile['cache_policy'] = 'never'
    enabled = [k for k in FAULT_KINDS if rng.random() < 0.7] or [rng.choice(FAULT_KINDS)]
    rate = rng.choice([0.1, 0.2, 0.4])
    subs = gen_substances(rng, profile)
    b = new_bench(rep, subs, profile, known)
    g = GenA(rng, b, profile)
    events = []
    for ev in g.initial_events():
        events.append(ev)
        b.step(ev)
    while len(events) < profile['n_events']:
        ev = g.next_event()
        events.append(ev)
        if ev['op'] != 'hold_slice' and rng.random() < rate:
            kind, exc = rng.choice(enabled)
            # bias a third of the instants towards the last fifth of the operation
            frac = rng.uniform(0.8, 1.0) if rng.random() < 0.33 else rng.uniform(0.0, 1.0)
            ev['fault'] = {'kind': kind, 'exc': exc, 'frac': round(frac, 6)}
            rep.clear_caches()
            faults.step_with_fault(b, ev, ev['fault'])
        else:
            b.step(ev)
    record = {'engine': 'C04', 'mode': 'history', 'property': prop, 'seed': seed, 'run': run, 'tier': tier,
              'profile': {k: profile[k] for k in ('magnitude', 'round_numbers', 'plate_size', 'cache_policy', 'n_events')},
              'subs': subs, 'events': events}
    return record, b


def run_replay(record, known=None):
    if record.get('mode') == 'recipe':
        from . import engine_b
        run = engine_b.run_replay(record, known)
        if record.get('bake_fault'):
            frun = recipe_with_bake_fault(record, known, dict(record['bake_fault']))
            if frun is not None:
                run.violations.extend(v for v in frun.violations if v.prop == 'C04' and v.clause == 'mutated_after_fault')
        return run
    if record.get('mode') == 'enumerate':
        return run_enumeration(record, known, kinds=tuple(record.get('kinds', ('KeyboardInterrupt', 'MemoryError'))))
    rep = env.load_replica()
    rep.clear_caches()
    b = new_bench(rep, record['subs'], record.get('profile', {}), known)
    for ev in record['events']:
        if ev.get('fault'):
            rep.clear_caches()
            faults.step_with_fault(b, ev, dict(ev['fault']))
        else:
            b.step(ev)
    return b


def rule():
    return (f"runs 0..{N_CORPUS - 1}: a fixed corpus of {N_CORPUS} operations (every op kind x pairing form, successful and "
            "naturally failing part-way) for each of which EVERY fault instant is enumerated: an injected KeyboardInterrupt / "
            "MemoryError at each traced line event of pyplate/*.py, and a MemoryError from each deepcopy call; remaining runs: "
            "seeded histories in which 10-40% of the events carry a fault at a seeded instant (dry run -> faulted run -> invariants "
            "-> recovery), incl. instants inside copy.py. After every fault the fingerprint of every live object, every argument "
            "and the module config must be unchanged and the fault-free retry must equal the dry run. Non-trivial: >= 2 "
            "successful state-changing events (or an enumeration); distinct = distinct coverage signatures (event tuples incl. "
            "fault kind and phase quintile).")
