"""Seeded generator of recipe programs (Engine B): interleaved intent threads over shared declared objects,
stage markers, illegal calls, deliberately infeasible steps, post-bake calls."""
from __future__ import annotations

from fractions import Fraction as F

from . import model as M
from .gen_a import GenA, gen_selector, fmt_quantity, round_sig


class GenB(GenA):
    def __init__(self, rng, run, profile):
        self.followups = []
        super().__init__(rng, run.bench, profile)
        self.run = run
        self.undeclared = []      # prelude objects deliberately never declared
        self.stage_n = 0
        self.steps_in_stage = 0
        self.done_steps = 0

    # ---- state accessors: the recipe generator looks at the eager reference
    _bench_mode = False

    def names(self, kind):
        if self._bench_mode:
            return GenA.names(self, kind)
        rep = self.run.rep
        cls = rep.Plate if kind == 'plate' else rep.Container
        return [n for n, o in self.run.eager.items() if o is not None and isinstance(o, cls)]

    def n_versions(self, name):
        return GenA.n_versions(self, name) if self._bench_mode else 1

    def resolved_version(self, name, ver):
        return GenA.resolved_version(self, name, ver) if self._bench_mode else 0

    def latest_model(self, name, ver):
        if self._bench_mode:
            return GenA.latest_model(self, name, ver)
        o = self.run.eager[name]
        return self.W.alpha(o), o

    # ---- prelude: objects made with the direct API before the recipe exists
    def prelude(self):
        rng = self.rng
        evs = []
        for _ in range(rng.randint(2, 3)):
            ev = self.ev_new_container(boundary=rng.choice(['inf', 'roomy', 'roomy']))
            if not ev['contents'] and rng.random() < 0.7:
                ev = self.ev_new_container(boundary='roomy')
            evs.append(ev)
        for _ in range(rng.randint(1, 2)):
            evs.append(self.ev_new_plate())
        return evs

    def prelude_fill(self):
        """A few direct transfers so that plates are non-uniform when they are declared."""
        rng = self.rng
        out = []
        for _ in range(rng.randint(0, 2)):
            save = self.p
            self.p = dict(self.p, q_w=[10, 0, 0, 0, 0, 0, 0, 0], form_w=[0, 1, 0, 0, 0, 0, 0], same_plate_p=0.0, stale_p=0.0)
            ev = GenA.gen_transfer(self)
            self.p = save
            if ev is not None:
                out.append(ev)
                yield ev

    # GenA accessors during the prelude must look at the bench registry
    def use_bench(self, flag):
        self._bench_mode = flag

    # ---- conversion of bench events to recipe calls
    @staticmethod
    def ref(r):
        return [r[0]] + ([r[2]] if len(r) > 2 else [])

    def to_call(self, ev):
        op = ev['op']
        if op == 'transfer':
            return {'c': 'transfer', 'src': self.ref(ev['src']), 'dst': self.ref(ev['dst']), 'q': ev['q']}
        if op == 'remove':
            return {'c': 'remove', 'tgt': self.ref(ev['tgt']), 'what': ev['what']}
        if op == 'fill_to':
            return {'c': 'fill_to', 'tgt': self.ref(ev['tgt']), 'solvent': ev['solvent'], 'q': ev['q']}
        if op == 'dilute':
            c = {'c': 'dilute', 'tgt': [ev['tgt'][0]], 'solute': ev['solute'], 'conc': ev['conc'], 'solvent': ev['solvent']}
            if ev.get('name'):
                c['name'] = ev['name']
            return c
        if op == 'new_container':
            return {'c': 'create_container', 'name': ev['name'], 'cap': ev['cap'], 'contents': ev['contents']}
        if op == 'solution':
            solv = ev['solvent']
            c = {'c': 'create_solution', 'name': ev['name'], 'solutes': ev['solutes'],
                 'solvent': {'obj': solv[0]} if isinstance(solv, list) else solv, 'kwargs': ev['kwargs']}
            if ev.get('aslist'):
                c['aslist'] = True
            return c
        if op == 'solution_from':
            if isinstance(ev['solvent'], list):
                return None
            return {'c': 'create_solution_from', 'src': ev['src'][0], 'solute': ev['solute'], 'conc': ev['conc'],
                    'solvent': ev['solvent'], 'q': ev['q'], 'name': ev['name']}
        return None

    # ---- one step-adding call aimed at the current eager state
    def gen_step(self, prefer=None):
        rng = self.rng
        w = self.p['step_w']
        ops = list(w)
        if prefer is None and rng.random() < self.p.get('p_top_up', 0.06):
            c = self.top_up()
            if c is not None:
                return c
        for _ in range(30):
            op = prefer or rng.choices(ops, weights=[w[o] for o in ops])[0]
            prefer = None
            if op == 'new_container' and len(self.run.lc.declared) >= 9:
                continue
            ev = getattr(self, 'gen_' + op)()
            if ev is None:
                continue
            c = self.to_call(ev)
            if c is None:
                continue
            self.maybe_subslice(c)
            if c['c'] == 'dilute' and c.get('name') and self.run.known is not None \
                    and self.run.known.active('recipe_dilute_rename') and not self.p.get('allow_known') \
                    and self.p.get('prop') in ('C09', 'C15', 'C17', 'C18', None) and not self.p.get('allow_rename'):
                del c['name']                   # known finding: tracking loses a renamed container (only *its* answers are excused)
            if c['c'] == 'dilute' and c.get('name') and rng.random() < 0.3:
                # the new name is one that another declared object already carries
                others = [n for n in self.run.lc.declared if n != c['tgt'][0]]
                if others:
                    c['name'] = rng.choice(others)
            if c['c'] == 'fill_to' and len(c['tgt']) > 1 and self.run.known is not None \
                    and self.run.known.active('recipe_fill_to_slice') and not self.p.get('allow_known'):
                c['tgt'] = [c['tgt'][0]]        # known finding: slices are only filled by its witness
            return c
        return None

    def top_up(self):
        """Fill a declared container back up to exactly the volume it had when it was declared (after something was taken
        out of it): the target coincides with a number the recipe has seen before."""
        rng, W, rep = self.rng, self.W, self.run.rep
        cand = []
        for n, h in self.run.handles.items():
            o = self.run.eager.get(n)
            if isinstance(h, rep.Container) and isinstance(o, rep.Container) and h.volume > 0 and o.volume < h.volume:
                cand.append(n)
        if not cand:
            return None
        n = rng.choice(sorted(cand))
        h = self.run.handles[n]
        m = W.alpha_container(self.run.eager[n])
        liquids = [s for s in m.contents if W.msubs[s].kind == M.LIQUID] or self.subs_of(M.LIQUID)
        if not liquids:
            return None
        q = fmt_quantity(rng, W.stored_volume(h), 'L', digits=17)
        self.run.stats['probe:top_up_to_declared_volume'] += 1
        return {'c': 'fill_to', 'tgt': [n], 'solvent': rng.choice(sorted(liquids)), 'q': q}

    def maybe_subslice(self, c):
        """Sometimes address a region as a slice of a slice (plate[1:4][0:2, 0:1]); only where the library pairs wells by
        iteration (remove, container <-> slice), not by the cached shape of the slice."""
        rng = self.rng
        if rng.random() >= self.p.get('p_subslice', 0.08):
            return
        k = c['c']
        slots = []
        if k == 'remove':
            slots = ['tgt']
        elif k == 'transfer':
            rep = self.run.rep
            s_is_c = isinstance(self.run.eager.get(c['src'][0]), rep.Container)
            d_is_c = isinstance(self.run.eager.get(c['dst'][0]), rep.Container)
            if s_is_c and not d_is_c:
                slots = ['dst']
            elif d_is_c and not s_is_c:
                slots = ['src']
        for slot in slots:
            ref = c[slot]
            if len(ref) < 2 or ref[1] is None or ref[1].get('k') not in ('rect', 'row'):
                continue
            o = self.run.eager.get(ref[0])
            if o is None:
                continue
            cells, shape = M.select(ref[1], (o.n_rows, o.n_columns))
            if shape is None or shape[0] * shape[1] < 2:
                continue
            a = rng.randint(0, shape[0] - 1)
            b = rng.randint(a + 1, shape[0])
            c0 = rng.randint(0, shape[1] - 1)
            c1 = rng.randint(c0 + 1, shape[1])
            if (b - a, c1 - c0) == shape:
                continue
            ref[1] = {'k': 'sub', 'base': ref[1], 'sub': [[a, b], [c0, c1]]}

    def step_using(self, name):
        """A feasible-looking step that uses the declared object `name` (to satisfy 'every declared object is used')."""
        rng = self.rng
        rep = self.run.rep
        o = self.run.eager.get(name)
        if o is None:
            return None
        if isinstance(o, rep.Plate):
            sel = gen_selector(rng, (o.n_rows, o.n_columns))
            if rng.random() < 0.5:
                return {'c': 'remove', 'tgt': [name, sel], 'what': rng.choice([M.LIQUID, M.SOLID] + self.subs_of())}
            solvents = [n for n in self.subs_of() if not self.W.msubs[n].is_enzyme]
            m = self.W.alpha(o)
            cells, _ = M.select(sel, m.shape)
            cur = max((self.W.model.volume(m.well(c)) for c in cells), default=F(0))
            cap = m.cap
            if cap is not None and cur < cap:
                val = cur + (cap - cur) * F(1, 2)
                tgt = [name] if (self.run.known is not None and self.run.known.active('recipe_fill_to_slice')) else [name, sel]
                if len(tgt) == 1:
                    cur = max((self.W.model.volume(m.well(c)) for c in m.all_cells()), default=F(0))
                    if cur >= cap:
                        return {'c': 'remove', 'tgt': [name, sel], 'what': M.LIQUID}
                    val = cur + (cap - cur) * F(1, 2)
                return {'c': 'fill_to', 'tgt': tgt, 'solvent': rng.choice(solvents), 'q': fmt_quantity(rng, val, 'L', digits=6)}
            return {'c': 'remove', 'tgt': [name, sel], 'what': M.LIQUID}
        return {'c': 'remove', 'tgt': [name], 'what': rng.choice([M.ENZYME, M.SOLID, M.LIQUID] + self.subs_of())}

    def new_stage_name(self):
        """Mostly s1, s2, ...; sometimes a legal name that merely looks like something else: another capitalisation of the
        reserved 'all', the name of a declared object or of a substance, a name differing from an earlier one by case."""
        rng = self.rng
        self.stage_n += 1
        taken = self.run.lc.stage_names | ({self.run.lc.open_stage} if self.run.lc.open_stage else set())
        if rng.random() < self.p.get('p_odd_stage_name', 0.12):
            cand = ['All', 'ALL', 'aLL', ' all', 'all ', 'S1', 's 1', 'stage', '0', 'None', '', '', ' ']
            cand += [n for n in self.run.lc.declared[:2]] + [self.W.real_name[n] for n in self.subs_of()[:1]]
            cand = [n for n in cand if n not in taken]
            if cand:
                return rng.choice(cand)
        name = f"s{self.stage_n}"
        while name in taken:
            self.stage_n += 1
            name = f"s{self.stage_n}"
        return name

    # ---- illegal calls (C16)
    def illegal_call(self):
        rng = self.rng
        lc = self.run.lc
        kinds = ['dup_uses', 'dup_create', 'undeclared_transfer', 'undeclared_remove', 'undeclared_fill', 'undeclared_dilute',
                 'nested_stage', 'dup_stage', 'wrong_end', 'end_none', 'end_all', 'dup_in_call', 'bad_args', 'refused_create']
        k = rng.choice(kinds)
        if k == 'refused_create':
            c = self.refused_create()
            if c is not None:
                return c
        decl = list(lc.declared)
        und = [n for n in self.undeclared if n not in lc.declared]
        solvents = [n for n in self.subs_of() if not self.W.msubs[n].is_enzyme]
        if k == 'dup_uses' and decl:
            n = rng.choice([x for x in decl if self.run.obj(x) is not None] or [None])
            if n is None:
                return None
            objs = [n]
            if und and rng.random() < 0.5:
                objs = [und[0], n] if rng.random() < 0.5 else [n, und[0]]
            return {'c': 'uses', 'objs': objs}
        if k == 'dup_in_call' and und:
            # two objects of one name in a single uses() call (the same vessel twice, or an older and a newer version of it)
            n = und[0]
            c = {'c': 'uses', 'objs': [n, n], 'aslist': rng.random() < 0.3}
            nv = len(self.W.reg.get(n, []))
            if nv > 1 and rng.random() < 0.7:
                c['vers'] = [0, -1]
            return c
        if k == 'bad_args' and decl:
            return self.bad_args_call(rng.choice(decl))
        if k == 'dup_create' and decl:
            how = rng.choice(['container', 'solution', 'solution_from'])
            if how != 'container':
                # an otherwise valid create_solution[_from] whose only fault is the name that is already taken
                ev = self.gen_solution() if how == 'solution' else self.gen_solution_from()
                c = self.to_call(ev) if ev is not None else None
                if c is not None and self.run.try_eager(c)[0] == 'ok':
                    c['name'] = rng.choice(decl)
                    return c
            return {'c': 'create_container', 'name': rng.choice(decl), 'cap': '10 mL', 'contents': []}
        if k.startswith('undeclared') and und:
            n = rng.choice(und)
            o = self.run.obj(n)
            isplate = isinstance(o, self.run.rep.Plate)
            ref = [n] + ([gen_selector(rng, (o.n_rows, o.n_columns))] if isplate and rng.random() < 0.6 else [])
            if k == 'undeclared_transfer':
                other = [x for x in decl if self.run.eager.get(x) is not None]
                if not other:
                    return None
                m = rng.choice(other)
                if rng.random() < 0.5:
                    return {'c': 'transfer', 'src': ref, 'dst': [m], 'q': '1 uL'}
                return {'c': 'transfer', 'src': [m], 'dst': ref, 'q': '1 uL'}
            if k == 'undeclared_remove':
                return {'c': 'remove', 'tgt': ref, 'what': M.LIQUID}
            if k == 'undeclared_fill':
                return {'c': 'fill_to', 'tgt': ref, 'solvent': rng.choice(solvents), 'q': '1 uL'}
            if k == 'undeclared_dilute' and not isplate:
                m = self.W.alpha(o)
                sol = [x for x in m.contents if not self.W.msubs[x].is_enzyme]
                if not sol:
                    return None
                return {'c': 'dilute', 'tgt': [n], 'solute': sol[0], 'conc': '0.001 M', 'solvent': rng.choice([s for s in solvents if s != sol[0]] or solvents)}
            return None
        if k == 'nested_stage' and lc.open_stage is not None:
            return {'c': 'start_stage', 'name': f"n{rng.randrange(100)}"}
        if k == 'dup_stage' and lc.open_stage is None and len(lc.stage_names) > 1:
            return {'c': 'start_stage', 'name': rng.choice(sorted(lc.stage_names))}
        if k == 'wrong_end' and lc.open_stage is not None:
            return {'c': 'end_stage', 'name': lc.open_stage + 'x'}
        if k == 'end_none' and lc.open_stage is None:
            return {'c': 'end_stage', 'name': rng.choice(sorted(lc.stage_names - {'all'}) or ['zz'])}
        if k == 'end_all' and lc.open_stage is None:
            return {'c': 'end_stage', 'name': 'all'}
        return None

    def refused_create(self):
        """A creation request under a new name that the library refuses for its values (a capacity of nothing, contents that do
        not fit, no or one of the three solution constraints, a quantity of nothing), then - as a follow-up - the corrected
        request under the same name.  The refused request must leave no trace: the name is still free, and the recipe bakes
        as if it had never been made."""
        rng = self.rng
        if len(self.run.lc.declared) >= 9 or self.run.lc.locked:
            return None
        how = rng.choice(['container', 'solution', 'solution', 'solution_from'])
        if how == 'container':
            name = f"rc{rng.randrange(1000)}"
            good = {'c': 'create_container', 'name': name, 'cap': '1 mL', 'contents': []}
            bad = dict(good)
            r = rng.random()
            liquids = self.subs_of(M.LIQUID)
            if r < 0.5 or not liquids:
                bad['cap'] = rng.choice(['-1 mL', '0 mL', '1 parsec'])
            else:
                bad['contents'] = [[liquids[0], '5 mL']]
        else:
            good = None
            for _ in range(6):
                ev = self.gen_solution() if how == 'solution' else self.gen_solution_from()
                c = self.to_call(ev) if ev is not None else None
                if c is not None and not (c['c'] == 'create_solution' and isinstance(c['solvent'], dict)) \
                        and self.run.try_eager(c)[0] == 'ok':
                    good = c
                    break
            if good is None:
                return None
            import copy as _copy
            bad = _copy.deepcopy(good)
            if bad['c'] == 'create_solution':
                kw = bad['kwargs']
                keys = [x for x in ('concentration', 'quantity', 'total_quantity') if x in kw]
                r = rng.random()
                if r < 0.4 and len(keys) >= 2:
                    del kw[rng.choice(keys)]                 # one constraint only
                elif r < 0.7 and 'total_quantity' in kw:
                    kw['total_quantity'] = '0 mL'
                elif 'quantity' in kw:
                    kw['quantity'] = ['0 g'] * len(kw['quantity']) if isinstance(kw['quantity'], list) else '0 g'
                elif keys:
                    del kw[keys[0]]
                else:
                    return None
            else:
                bad['q'] = rng.choice(['0 mL', '-1 mL'])
        bad['may_be_invalid'] = True
        if self.run.try_eager(bad)[0] == 'ok':
            return None             # the direct operation accepts it: not a refused request after all
        self.followups.append(good)
        self.run.stats['probe:refused_create_then_corrected'] += 1
        return bad

    def bad_args_call(self, name):
        """A step-adding call that names a declared object but is malformed for another reason: it must be rejected and
        must not count as a use of the object."""
        rng = self.rng
        o = self.run.eager.get(name)
        if o is None:
            return None
        isplate = isinstance(o, self.run.rep.Plate)
        solvents = [n for n in self.subs_of() if not self.W.msubs[n].is_enzyme]
        enz = self.subs_of(M.ENZYME)
        kind = rng.choice(['transfer_q', 'fill_q', 'dilute_enzyme'])
        other = [x for x in self.run.lc.declared if x != name and self.run.eager.get(x) is not None]
        if kind == 'transfer_q' and other:
            return {'c': 'transfer', 'src': [name], 'dst': [rng.choice(other)], 'q': 5, 'may_be_invalid': True, 'must_reject': True}
        if kind == 'fill_q':
            return {'c': 'fill_to', 'tgt': [name], 'solvent': rng.choice(solvents), 'q': 3.5, 'may_be_invalid': True, 'must_reject': True}
        if kind == 'dilute_enzyme' and enz and not isplate:
            return {'c': 'dilute', 'tgt': [name], 'solute': enz[0], 'conc': '1 U/mL', 'solvent': rng.choice(solvents),
                    'may_be_invalid': True, 'must_reject': True}
        return None

    def post_bake_call(self):
        rng = self.rng
        lc = self.run.lc
        decl = [n for n in lc.declared if self.run.eager.get(n) is not None]
        k = rng.choice(['uses', 'create_container', 'create_solution', 'create_solution_from', 'transfer', 'remove', 'dilute', 'fill_to',
                        'bake', 'start_stage', 'end_stage'])
        if k == 'bake':
            return {'c': 'bake'}
        if k == 'start_stage':
            return {'c': 'start_stage', 'name': f"late{rng.randrange(50)}"}
        if k == 'end_stage':
            return {'c': 'end_stage', 'name': rng.choice(sorted(lc.stage_names))}
        if k == 'uses':
            und = [n for n in self.undeclared if n not in lc.declared]
            if not und:
                return None
            return {'c': 'uses', 'objs': [und[0]]}
        if k == 'create_container':
            c = {'c': 'create_container', 'name': f"late{rng.randrange(1000)}", 'cap': '1 mL', 'contents': []}
            r = rng.random()
            if r < 0.2:
                c['name'] = rng.choice(decl or ['V0'])          # a name already taken
            elif r < 0.4:
                c['cap'] = rng.choice(['-1 mL', '0 mL', '1 parsec'])   # a capacity the constructor refuses
            elif r < 0.55:
                liquids = self.subs_of(M.LIQUID)
                c['cap'], c['contents'] = '1 mL', [[liquids[0], '5 mL']]    # contents that do not fit
            return c
        op = {'create_solution': 'solution', 'create_solution_from': 'solution_from'}.get(k, k)
        save = self.p
        self.p = dict(self.p, q_w=[10, 0, 0, 0, 0, 0, 0, 0], fill_w=[10, 0, 0, 0, 0, 0, 0, 0, 0, 0], dil_w=[8, 3, 0, 0, 0])
        try:
            for _ in range(10):
                ev = getattr(self, 'gen_' + op)()
                if ev is not None:
                    c = self.to_call(ev)
                    if c is not None:
                        if c['c'] == 'create_solution' and isinstance(c['solvent'], dict):
                            continue
                        return c
        finally:
            self.p = save
        return None
