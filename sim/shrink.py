"""Minimisation of a failing record: ddmin over events, then argument simplification.  A candidate is accepted
only if a violation with the same finding key (property, clause, key) still occurs."""
from __future__ import annotations

import copy
import re

from .common import HarnessError


def fails_with(eng, record, fkey, known):
    try:
        res = eng.run_replay(record, known=known)
    except HarnessError:
        return None
    except Exception:
        return None
    for v in res.violations:
        if v.known is None and tuple(v.fkey()) == tuple(fkey):
            return v
    return None


def _round_number(s, nd):
    try:
        x = float(s)
    except ValueError:
        return s
    out = format(x, f'.{nd}g')
    if 'e' in out:
        from decimal import Decimal
        out = format(Decimal(out), 'f')
    return out


def simplify_quantity(q, nd):
    m = re.match(r'^(-?)([0-9.eE+-]+)( .*)$', q)
    if not m:
        return q
    return m.group(1) + _round_number(m.group(2), nd) + m.group(3)


def shrink(eng, record, fkey, known, budget=300, tester=None):
    """-> (minimised record, violation, number of replays used).  tester(record) -> violation | None replaces the in-process
    replay (used to minimise with every candidate replayed in an interpreter of its own)."""
    if tester is not None:
        def fails_with(_eng, rec, _fkey, _known):       # noqa: F811  (shadows the module-level function on purpose)
            return tester(rec)
    else:
        fails_with = globals()['fails_with']
    used = 0
    best = copy.deepcopy(record)
    v = fails_with(eng, best, fkey, known)
    used += 1
    if v is None:
        return record, None, used
    # 0. a second session, if it is not needed
    if best.get('session2'):
        cand = {k: x for k, x in best.items() if k != 'session2'}
        v2 = fails_with(eng, cand, fkey, known)
        used += 1
        if v2 is not None:
            best, v = cand, v2
    if best.get('blind'):
        cand = {k: x for k, x in best.items() if k != 'blind'}
        v2 = fails_with(eng, cand, fkey, known)
        used += 1
        if v2 is not None:
            best, v = cand, v2
    if best.get('alias'):
        cand = {k: x for k, x in best.items() if k != 'alias'}
        v2 = fails_with(eng, cand, fkey, known)
        used += 1
        if v2 is not None:
            best, v = cand, v2
    if best.get('chain'):
        cand = {k: x for k, x in best.items() if k != 'chain'}
        v2 = fails_with(eng, cand, fkey, known)
        used += 1
        if v2 is not None:
            best, v = cand, v2
    # 1. truncate after the violating event
    events = best['events'][:v.event + 1]
    cand = dict(best, events=events)
    v2 = fails_with(eng, cand, fkey, known)
    used += 1
    if v2 is not None:
        best, v = cand, v2

    def try_events(evs):
        nonlocal best, v, used
        if used >= budget:
            return False
        cand = dict(best, events=evs)
        r = fails_with(eng, cand, fkey, known)
        used += 1
        if r is not None:
            best, v = cand, r
            return True
        return False

    # 2. ddmin over events
    n = 2
    while len(best['events']) >= 2 and used < budget:
        evs = best['events']
        size = max(1, len(evs) // n)
        removed = False
        for i in range(0, len(evs), size):
            cand = evs[:i] + evs[i + size:]
            if cand and try_events(cand):
                n = max(n - 1, 2)
                removed = True
                break
        if not removed:
            if size == 1:
                break
            n = min(len(evs), n * 2)
    # 3. drop per-event decorations, simplify quantities
    for i in range(len(best['events'])):
        for field in ('cc', 'fault'):
            if field in best['events'][i] and used < budget:
                evs = copy.deepcopy(best['events'])
                del evs[i][field]
                try_events(evs)
    # quantities are not simplified for cross-configuration records: a rounder number of another magnitude can move the
    # script into a regime where coarse replicas legitimately disagree, under the same finding key
    for nd in ((1, 2, 3) if best.get('engine') != 'C' else ()):
        for i in range(len(best['events'])):
            ev = best['events'][i]
            for field in ('q', 'cap'):
                if isinstance(ev.get(field), str) and used < budget:
                    sq = simplify_quantity(ev[field], nd)
                    if sq != ev[field]:
                        evs = copy.deepcopy(best['events'])
                        evs[i][field] = sq
                        try_events(evs)
            if ev.get('contents') and used < budget:
                for j, (sname, q) in enumerate(ev['contents']):
                    sq = simplify_quantity(q, nd)
                    if sq != q:
                        evs = copy.deepcopy(best['events'])
                        evs[i]['contents'][j][1] = sq
                        try_events(evs)
    # 4. drop contents entries
    for i in range(len(best['events'])):
        ev = best['events'][i]
        j = 0
        while ev.get('contents') and j < len(best['events'][i]['contents']) and used < budget:
            evs = copy.deepcopy(best['events'])
            del evs[i]['contents'][j]
            if not try_events(evs):
                j += 1
    # 5. drop unused substances
    if 'subs' in best:
        import json
        text = json.dumps(best['events'])
        for s in list(best['subs']):
            if f'"{s[0]}"' not in text and used < budget and len(best['subs']) > 1:
                cand = dict(best, subs=[x for x in best['subs'] if x is not s])
                r = fails_with(eng, cand, fkey, known)
                used += 1
                if r is not None:
                    best, v = cand, r
    return best, v, used
