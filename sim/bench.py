"""Engine A executor: runs abstract events on real PyPlate objects, mirrors them on the model, checks oracles.

The executor is shared by generation (sim.gen_a) and replay: `Bench.step(ev)` is a pure function of the
event, the registry state and the code under test.
"""
from __future__ import annotations

import random
from collections import Counter
from fractions import Fraction as F

from . import model as M
from .common import Violation, HarnessError
from .world import World, fingerprint, fp_container, fp_diff

STATE_OPS = ('new_container', 'new_plate', 'transfer', 'remove', 'fill_to', 'dilute', 'solution', 'solution_from')


class Operand:
    __slots__ = ('name', 'ver', 'kind', 'base', 'real', 'sel', 'cells', 'shape', 'whole')

    def __init__(self, name, ver, kind, base, real, sel=None, cells=None, shape=None, whole=False):
        self.name, self.ver, self.kind, self.base, self.real = name, ver, kind, base, real
        self.sel, self.cells, self.shape, self.whole = sel, cells, shape, whole


def odd_spelling(q):
    """A quantity whose unit the library may or may not know (an SI prefix on activity units: '2 mU', '0.001 kU').  Refusing
    it is fine; accepting it means doing what it says."""
    import re
    return isinstance(q, str) and re.search(r"[0-9.]\s*[a-zµ]{1,2}U$", q) is not None


def unit_class(unit):
    return {'L': 'vol', 'g': 'mass', 'mol': 'mol', 'U': 'act'}[unit]


def selector_arg(sel, plate):
    """Selector spec -> the Python object a user would put between the brackets of plate[...]."""
    rows, cols = plate.row_names, plate.column_names
    k = sel['k']
    form = sel.get('form', 'int')

    def lab(axis_labels, i):
        return axis_labels[i - 1] if 1 <= i <= len(axis_labels) else f"?{i}"

    def axis(spec, labels, use_labels):
        if spec is None:
            return slice(None)
        if isinstance(spec, int):
            return lab(labels, spec) if use_labels else spec
        a, b, s = spec
        if use_labels:
            a = None if a is None else lab(labels, a)
            b = None if b is None else lab(labels, b)
        return slice(a, b, s)

    if k == 'cell':
        r, c = sel['r'], sel['c']
        if form == 'str':
            return f"{lab(rows, r)}:{lab(cols, c)}"
        if form == 'lab':
            return (lab(rows, r), lab(cols, c))
        return (r, c)
    if k == 'row':
        return lab(rows, sel['r']) if form == 'lab' else sel['r']
    if k == 'rect':
        ra = axis(sel['r'], rows, sel.get('rl', False))
        ca = axis(sel['c'], cols, sel.get('cl', False))
        if sel['c'] is None and sel.get('short') and not isinstance(ra, str):
            return ra
        return (ra, ca)
    if k == 'list':
        out = []
        for n, (i, j) in enumerate(sel['cells']):
            f = sel.get('forms', ['tup'] * len(sel['cells']))[n]
            if f == 'str':
                out.append(f"{lab(rows, i)}:{lab(cols, j)}")
            elif f == 'lab':
                out.append((lab(rows, i), lab(cols, j)))
            else:
                out.append((i, j))
        return out
    raise HarnessError(f"selector {sel!r}")


def slice_of(plate, sel):
    """plate[...] for a selector spec, incl. a slice of a slice."""
    if sel['k'] == 'sub':
        (a, b), (c0, c1) = sel['sub']
        return plate[selector_arg(sel['base'], plate)][slice(a, b), slice(c0, c1)]
    return plate[selector_arg(sel, plate)]


class Bench:
    def __init__(self, rep, subs, known=None, cache_policy='never', obs=True):
        self.rep = rep
        self.world = World(rep, subs)
        self.violations = []
        self.log = []
        self.stats = Counter()
        self.sig = set()
        self.idx = -1
        self.known = known
        self.cache_policy = cache_policy
        self.obs = obs
        self.max_ratio = {}      # calibration: clause -> largest |real-model|/tol seen
        self.allowances = {}
        self.n_ok_state = 0
        self.instr_hooks = []    # callables (bench, ev, info) for C19, set by oracle_instr
        self.held = {}           # hold id -> kept PlateSlicer objects (the user's variable), see ev_hold_slice
        self.guards = []         # (label, list object handed to the library, shallow copy taken before the call)

    # ------------------------------------------------------------------ helpers
    def V(self, prop, clause, key, detail, known=None):
        v = Violation(prop, clause, key, self.idx, detail, known)
        self.violations.append(v)
        return v

    def guard(self, seq, label):
        """A list the caller hands to the library (solutes, initial contents, per-solute quantities, destinations) is an
        argument like any other: it must hold the same objects afterwards, whether the call succeeds or raises."""
        if isinstance(seq, list):
            self.guards.append((label, seq, list(seq)))
        return seq

    def check_guards(self, where):
        for label, seq, snap in self.guards:
            if len(seq) != len(snap) or any(a is not b for a, b in zip(seq, snap)):
                self.V('C04', 'argument_list_mutated', (where, label),
                       f"the list passed as {label} held {len(snap)} item(s) before the call and holds {len(seq)} afterwards: {seq!r}")
            else:
                self.stats['probe:argument_list_checked'] += 1
        self.guards = []

    def note_ratio(self, clause, err, tol):
        if tol > 0:
            r = float(err / tol)
            if r > self.max_ratio.get(clause, 0.0):
                self.max_ratio[clause] = r

    def operand(self, ref):
        W = self.world
        name, ver = ref[0], ref[1]
        base, v = W.resolve(name, ver)
        if base is None:
            return None
        kind = W.kind[name]
        if kind == 'container':
            return Operand(name, v, kind, base, base)
        sel = ref[2] if len(ref) > 2 and ref[2] is not None else {'k': 'all'}
        shape = (base.n_rows, base.n_columns)
        try:
            cells, sshape = M.select(sel, shape)
        except M.Refuse:
            cells, sshape = None, None
        if sel['k'] == 'all':
            return Operand(name, v, kind, base, base, sel, cells, sshape, whole=True)
        extra = ref[3] if len(ref) > 3 and isinstance(ref[3], dict) else None
        if extra is not None and extra.get('held') in self.held and cells is not None:
            # the slice object the user kept (and possibly read) earlier, used again - not a fresh plate[...] expression
            h = self.held[extra['held']]
            if h['name'] == name and h['ver'] == v:
                if h['sel'] == sel:
                    self.stats['probe:held_slice_used'] += 1
                    return Operand(name, v, kind, base, h['real'], sel, cells, sshape)
                if sel['k'] == 'sub' and h['sel'] == sel['base']:
                    (a, b), (c0, c1) = sel['sub']
                    self.stats['probe:held_slice_subsliced'] += 1
                    return Operand(name, v, kind, base, h['real'][slice(a, b), slice(c0, c1)], sel, cells, sshape)
        try:
            real = slice_of(base, sel)
        except Exception as exc:        # selector rejected by the library
            if cells is not None:
                # a documented way of addressing wells that the library refuses (never seen on the unchanged tree): the
                # operation cannot be asked for at all.  Reported, the event is skipped, and the history goes on - so that
                # the other oracles still see what the same library version does with the selectors it does accept.
                for prop in ('C07', 'C03'):
                    self.V(prop, 'selector_rejected', ('select', sel.get('k')),
                           f"{name}[{sel!r}] on a {shape[0]}x{shape[1]} plate raised {type(exc).__name__}: {exc}; the documented selection is {cells[:6]}")
                self.stats['selector_rejected_by_library'] += 1
            return None
        if cells is None:
            for prop in ('C07', 'C03'):
                self.V(prop, 'invalid_selector_accepted', ('select', sel.get('k')),
                       f"{name}[{sel!r}] on a {shape[0]}x{shape[1]} plate is not a documented selection but the library returned a slice")
            self.stats['invalid_selector_accepted_by_library'] += 1
            return None
        return Operand(name, v, kind, base, real, sel, cells, sshape)

    def call(self, fn):
        try:
            return ('ok', fn())
        except ValueError as e:
            return ('ValueError', e)
        except (KeyboardInterrupt, MemoryError):
            raise
        except Exception as e:          # noqa
            return (type(e).__name__, e)

    def judge(self, status, out, key, crash_prop='C03', known=None, also=None):
        kind = out[0]
        nv = len(self.violations)
        self._judge(status, out, key, crash_prop)
        if also is not None:
            # C11 states its own refusal clause (target above current concentration / below current quantity)
            for v in list(self.violations[nv:]):
                if v.clause == 'infeasible_accepted':
                    self.V(also, 'target_not_refused', key, v.detail)
        if known is not None:
            for v in self.violations[nv:]:
                v.known = known

    def _judge(self, status, out, key, crash_prop='C03'):
        kind = out[0]
        self.stats[f"decision:{status}:{'ok' if kind == 'ok' else 'ValueError' if kind == 'ValueError' else 'other'}"] += 1
        if status == 'must_accept':
            if kind == 'ValueError':
                self.V('C03', 'fits_refused', key, f"feasible request refused: {out[1]}")
            elif kind != 'ok':
                self.V(crash_prop, 'crash', key + (kind,), f"feasible request raised {kind}: {out[1]}")
        elif status == 'must_refuse':
            if kind == 'ok':
                self.V('C03', 'infeasible_accepted', key, "infeasible request returned a result")
            elif kind != 'ValueError':
                self.V('C03', 'wrong_exception', key + (kind,), f"infeasible request raised {kind}: {out[1]}")
        elif status == 'must_reject':
            if kind == 'ok':
                self.V('C07', 'bad_shapes_accepted', key, "incompatible shapes accepted")

    # ------------------------------------------------------------------ invariants on returned objects (C03, C10)
    def check_vessel_state(self, c, key, role):
        """C03 impossible-state invariant + C10 bookkeeping on one real container / well."""
        W = self.world
        mv = W.alpha_container(c)
        for n, a in mv.contents.items():
            negtol = 20 * W.q_amt(n)
            if a < -negtol:
                self.V('C03', 'negative_amount', key + (role,), f"{c.name}: {n} = {float(a):.6g}")
        vol = W.stored_volume(c)
        tolv = W.tol_volume(mv)
        if vol < -tolv:
            self.V('C03', 'negative_volume', key + (role,), f"{c.name}: volume {float(vol):.6g} L")
        if mv.cap is not None and vol > mv.cap + tolv:
            self.V('C03', 'over_capacity', key + (role,),
                   f"{c.name}: volume {float(vol):.9g} L > capacity {float(mv.cap):.9g} L")
        mvol = W.model.volume(mv)
        err = abs(vol - mvol)
        self.note_ratio('bookkeeping', err, tolv)
        if err > tolv:
            self.V('C10', 'bookkeeping', key + (role,),
                   f"{c.name}: stored volume {float(vol):.12g} L but contents add up to {float(mvol):.12g} L")
        return mv

    def check_result_object(self, obj, key, role):
        rep = self.rep
        if isinstance(obj, rep.Container):
            self.check_vessel_state(obj, key, role)
        elif isinstance(obj, rep.Plate):
            for w in obj.wells.flatten():
                self.check_vessel_state(w, key, role)

    def compare_vessel(self, real_c, mexp: M.MVessel, tol: dict, key, role, prop='C02', clause='aliquot', known=None):
        """alpha(real) vs expected model vessel, per substance, within tol (dict name -> abs tolerance)."""
        W = self.world
        mv = W.alpha_container(real_c)
        names = list(dict.fromkeys(list(mexp.contents) + list(mv.contents)))
        ok = True
        for n in names:
            e = mexp.contents.get(n, F(0))
            r = mv.contents.get(n, F(0))
            t = tol.get(n, F(0)) + 20 * W.q_amt(n) + abs(e) * F(1, 10 ** 11)
            err = abs(e - r)
            self.note_ratio(clause, err, t)
            if err > t:
                ok = False
                self.V(prop, clause, key + (role,),
                       f"{real_c.name}: {n} is {float(r):.12g}, expected {float(e):.12g} (tol {float(t):.3g})", known)
        return ok

    # ------------------------------------------------------------------ events
    def step(self, ev):
        self.idx += 1
        if self.cache_policy == 'always' or (self.cache_policy == 'random' and ev.get('cc')):
            self.rep.clear_caches()
        op = ev['op']
        fn = getattr(self, 'ev_' + op, None)
        if fn is None:
            raise HarnessError(f"unknown op {op}")
        nv0 = len(self.violations)
        self.world.cur_idx = self.idx
        rec = fn(ev) or {}
        self.check_guards(op)
        # C04: every live object unchanged, after every event, successful or not
        bad = self.world.check_immutability()
        for label, diff in bad:
            self.V('C04', 'mutated', (op, rec.get('form', '-'), 'live-object'), f"{label} changed: {diff}")
            # re-baseline so that one mutation is reported once
        if bad:
            self.rebaseline()
        rec['op'] = op
        rec['nviol'] = len(self.violations) - nv0
        self.log.append(rec)
        return rec

    def rebaseline(self):
        W = self.world
        for (name, v) in list(W.fps):
            W.fps[(name, v)] = fingerprint(self.rep, W.reg[name][v])
        W.extra_live = [(l, o, fingerprint(self.rep, o)) for l, o, _ in W.extra_live]

    # ---- construction
    def ev_new_container(self, ev):
        W = self.world
        rep = self.rep
        name, cap, contents = ev['name'], ev.get('cap'), ev.get('contents') or []
        key = ('new_container', '-', '-')
        status = 'must_accept'
        mexp = None
        try:
            mexp, margin = W.model.make_container(name, cap, contents)
        except M.Refuse as r:
            status = 'must_refuse'
            margin = r.margin if r.reason == 'exceeds capacity' else None
            if r.reason == 'exceeds capacity':
                mexp = self._contents_vessel(name, contents)
                mexp.cap = M.parse_quantity(cap)[0]
            if r.reason == 'negative quantity':
                # a negative amount below the library's own resolution is zero for the library
                for sname, q in contents:
                    value, unit = M.parse_quantity(q)
                    if value < 0 and abs(W.msubs[sname].amount_from(value, unit)) < 20 * W.q_amt(sname):
                        status = 'dont_care'
        if margin is not None and mexp is not None:
            band = self.band_cap(mexp)
            if margin == 0 and self.exact_ok(mexp):
                self.stats['probe:exact_capacity_request'] += 1
            elif abs(margin) < band:
                status = 'dont_care'
                if margin == 0:
                    self.stats['exact_capacity_dontcare'] += 1
        odd = any(odd_spelling(q) for _, q in contents)
        if odd and status == 'must_accept':
            status = 'dont_care'
        args = [name]
        kwargs = {}
        if cap is not None:
            kwargs['max_volume'] = cap
        if contents:
            kwargs['initial_contents'] = self.guard([(W.rsubs[s], q) for s, q in contents], 'initial_contents')
        out = self.call(lambda: rep.Container(*args, **kwargs))
        self.judge(status, out, key)
        self.sig.add(('new_container', status, out[0] == 'ok', len(contents)))
        if out[0] != 'ok':
            return {'out': out[0], 'status': status}
        c = out[1]
        self.check_result_object(c, key, 'new')
        if (status == 'must_accept' or odd) and mexp is not None and status != 'must_refuse':
            tol = {n: 20 * W.q_amt(n) for n in mexp.contents}
            self.compare_vessel(c, mexp, tol, key, 'new', prop='C10', clause='constructed_contents')
        if status != 'must_refuse':
            # "fresh" = every stored amount comes from one user decimal string; a substance listed twice is added twice and
            # carries two roundings (the incrementally kept volume and the contents may differ by a rounding step)
            W.add(name, c, fresh=len(set(s for s, _ in contents)) == len(contents))
            self.n_ok_state += 1
            self.after_result(ev, [(name, c)], key)
        return {'out': 'ok', 'status': status, 'fp': repr(fp_container(c)[2:4])}

    def _contents_vessel(self, name, contents):
        v = M.MVessel(name, None)
        for s, q in contents:
            value, unit = M.parse_quantity(q)
            try:
                v.add(s, self.world.msubs[s].amount_from(value, unit))
            except M.Refuse:
                pass
        return v

    def band_cap(self, mv: M.MVessel):
        W = self.world
        cap = mv.cap if mv.cap is not None else F(0)
        return 2 * W.tol_volume(mv) + F(1, 10 ** 11) * cap

    def exact_ok(self, mv: M.MVessel):
        """Exact-capacity requests are demanded only where the library's own rounding is designed to absorb the
        float error: predicted error well below half a rounding quantum (DESIGN §3)."""
        W = self.world
        vol = W.model.volume(mv)
        vol_storage = vol / W.units.vol_mult
        eps = F(1, 2 ** 52)
        pred = 8 * eps * vol_storage * (len(mv.contents) + 1) + W.slack_total(mv, 'L') / W.units.vol_mult
        if mv.cap is not None and (mv.cap / W.units.vol_mult / (100 * W.units.q)).denominator != 1:
            return False        # the capacity itself is not representable at the library's precision
        for n, a in mv.contents.items():
            if (a * W.msubs[n].per_amount('L') / W.units.vol_mult / (100 * W.units.q)).denominator != 1:
                return False
        return pred < W.units.q / 4 and vol_storage <= 20000

    def exact_total_ok(self, T, unit):
        W = self.world
        mult = {'L': W.units.vol_mult, 'mol': W.units.mol_mult, 'g': F(1), 'U': F(1)}[unit]
        # representable at the library's precision in the unit the request is rounded in (no rounding tie at the last digit)
        if (T / mult / (100 * W.units.q)).denominator != 1:
            return False
        # the library's rounding absorbs the float error of the unit conversion only while one float ulp of the total in
        # storage units is far below the rounding step: 20000 storage units at the shipped precision (ulp 3.6e-12 vs 1e-10),
        # proportionally less at a finer internal_precision (at p = 12, 8000 umol already carries an ulp of 0.9e-12)
        return T / mult <= 20000 * (W.units.q * 10 ** 10)

    def ev_new_plate(self, ev):
        rep = self.rep
        W = self.world
        name, cap, rows, cols = ev['name'], ev['cap'], ev['rows'], ev['cols']
        out = self.call(lambda: rep.Plate(name, cap, rows=rows, columns=cols))
        key = ('new_plate', '-', '-')
        self.judge('must_accept', out, key)
        if out[0] != 'ok':
            return {'out': out[0]}
        p = out[1]
        nr = rows if isinstance(rows, int) else len(rows)
        nc = cols if isinstance(cols, int) else len(cols)
        if p.wells.shape != (nr, nc):
            self.V('C07', 'plate_shape', key, f"shape {p.wells.shape} != {(nr, nc)}")
        self.check_result_object(p, key, 'new')
        W.add(name, p, fresh=True)
        return {'out': 'ok', 'shape': [nr, nc]}

    # ---- transfer
    def pairing(self, s: Operand, d: Operand):
        if d.kind == 'container':
            return 'c>c' if s.kind == 'container' else 'N>c'
        if s.kind == 'container':
            return 'c>N'
        ls, ld = len(s.cells), len(d.cells)
        # documented pairing: one -> many, many -> one, element-wise for equal shapes (a list of n wells pairs with a
        # list of n wells); a list against a rectangle of another shape is not predicted
        if ls == 1:
            return '1>N'
        if ld == 1:
            return 'N>1'
        if s.shape is not None and s.shape == d.shape:
            return 'N>N'
        if s.shape is None and d.shape is None:
            return 'N>N' if ls == ld else 'bad'
        if s.shape is None or d.shape is None:
            return 'list'
        return 'bad'

    def is_fresh(self, op: Operand):
        return (op.name, op.ver) in self.world.fresh

    def model_transfer(self, s: Operand, d: Operand, q: str, form: str, same: bool):
        """Sequential documented semantics on copies of the model twins.

        -> dict(status, ms, md, touched=[(side, cell|None)], tol={(side,cell): {name: tol}}, margins, n_pairs)
        """
        W = self.world
        mdl = W.model
        value, unit = M.parse_quantity(q)
        ms = W.alpha(s.base)
        ms = ms.copy()
        md = ms if same else W.alpha(d.base).copy()
        if form in ('bad',):
            return {'status': 'must_reject'}
        if form == 'list':
            return {'status': 'unpredicted'}

        def get(side, cell):
            obj = ms if side == 's' else md
            return obj if cell is None else obj.well(cell)

        def put(side, cell, v):
            nonlocal ms, md
            if cell is None:
                if side == 's':
                    ms = v
                else:
                    md = v
            else:
                obj = ms if side == 's' else md
                obj.wells[cell[0]][cell[1]] = v

        if form == 'c>c':
            pairs = [(None, None)]
        elif form == 'c>N':
            pairs = [(None, c) for c in d.cells]
        elif form == 'N>c':
            pairs = [(c, None) for c in s.cells]
        elif form == '1>N':
            pairs = [(s.cells[0], c) for c in d.cells]
        elif form == 'N>1':
            pairs = [(c, d.cells[0]) for c in s.cells]
        else:
            pairs = list(zip(s.cells, d.cells))
        tol = {}
        status = 'must_accept'
        worst = None
        moved_log = []
        relerr_max = F(0)
        margin_rel = F(1)       # smallest relative distance of the request from a feasibility boundary (C18 uses it)
        fresh_src = self.is_fresh(s)
        for k, (cs, cd) in enumerate(pairs):
            vs, vd = get('s', cs), get('d', cd)
            T = mdl.total(vs, unit)
            slackT = 20 * W.slack_total(vs, unit) + (20 * W.q_vol() * (len(vs.contents) + 1) if unit == 'L' else 0)
            # the library rounds the request itself to p decimals: in storage units for L and mol, in grams for g
            q_req = {'L': W.q_vol(), 'mol': W.units.q * W.units.mol_mult, 'g': W.units.q, 'U': F(0)}[unit]
            # a vessel that took part in earlier pairs of this operation (the threaded source of a broadcast) has drifted
            # from the model's copy by the tolerance accumulated so far
            prev = tol.get(('s', cs), {})
            if same:
                prev = dict(prev)
                for n, x in tol.get(('d', cs), {}).items():
                    prev[n] = prev.get(n, F(0)) + x
            slackT += sum((x * W.msubs[n].per_amount(unit) for n, x in prev.items()), F(0))
            band_src = 2 * slackT + 4 * q_req + F(1, 10 ** 11) * max(T, abs(value))
            if value < 0:
                return {'status': 'must_refuse', 'why': 'negative', 'pair': k}
            m_src = T - value
            if max(T, abs(value)) > 0:
                margin_rel = min(margin_rel, abs(m_src) / max(T, abs(value)))
            if m_src < 0 and m_src <= -band_src:
                return {'status': 'must_refuse', 'why': 'overdraw', 'pair': k, 'margin_rel': margin_rel}
            # the stored floats of a fresh vessel are the doubles nearest to the user's decimals (0.7 mmol is not 7/10 in a
            # float): a request that equals their sum up to that representation error is the whole content
            # (only where the total is a plain sum of stored amounts - moles, activity; a total in grams or litres goes through
            # molar mass and density, and the stored moles of '9 kg' under mol storage are 9 kg only to within 1e-10 mol x M)
            exactish = fresh_src and k == 0 and T > 0 and (m_src == 0 or (unit in ('mol', 'U') and abs(m_src) <= T * F(1, 2 ** 46)))
            if m_src < band_src:
                if exactish and self.exact_total_ok(T if m_src == 0 else value, unit):
                    self.stats['probe:whole_content_transfer'] += 1
                else:
                    status = 'dont_care' if status == 'must_accept' else status
            value_eff = min(value, T)
            if T == 0:
                if value > 4 * q_req + band_src:
                    return {'status': 'must_refuse', 'why': 'empty-source', 'pair': k}
                ratio = F(0)
                status = 'dont_care' if status == 'must_accept' else status   # zero from an empty source: not judged
            else:
                ratio = min(value_eff, T) / T
            relerr = (slackT / T if T > 0 else F(0)) + (2 * q_req / value if value > 0 else F(0)) + F(1, 10 ** 12)
            ill = T <= 4 * slackT      # the total is at the level of its own rounding: the real ratio may be anything in [0, 1]
            ns, nd = vs.copy(), vd.copy()
            ts = tol.setdefault(('s', cs), {})
            td = tol.setdefault(('d', cd), {})
            moved_log.append({n: a * ratio for n, a in vs.contents.items()})
            relerr_max = max(relerr_max, relerr)
            for n, a in vs.contents.items():
                moved = a * ratio
                ns.contents[n] = a - moved
                nd.add(n, moved)
                e = abs(moved) * relerr + 10 * W.q_amt(n)
                if ill:
                    e += abs(a) + ts.get(n, F(0))      # incl. what the real source may still hold beyond the model's copy
                ts[n] = ts.get(n, F(0)) + e
                td[n] = td.get(n, F(0)) + e
            if vd.cap is not None:
                m_dst = vd.cap - mdl.volume(nd)
                band_dst = self.band_cap(nd) + sum((t * W.msubs[n].per_amount('L') for n, t in td.items()), F(0))
                if vd.cap > 0:
                    margin_rel = min(margin_rel, abs(m_dst) / vd.cap)
                if m_dst < -band_dst:
                    return {'status': 'must_refuse', 'why': 'capacity', 'pair': k, 'margin_rel': margin_rel}
                if m_dst < band_dst:
                    status = 'dont_care' if status == 'must_accept' else status
                    if m_dst == 0:
                        self.stats['exact_capacity_dontcare'] += 1
                worst = m_dst if worst is None else min(worst, m_dst)
            put('s', cs, ns)
            put('d', cd, nd)
            if same and cs is not None and cd is not None:
                pass
        return {'status': status, 'ms': ms, 'md': md, 'pairs': pairs, 'tol': tol, 'n_pairs': len(pairs),
                'unit': unit, 'value': value, 'moved': moved_log, 'relerr_max': relerr_max, 'margin_rel': margin_rel}

    def ev_transfer(self, ev):
        rep, W = self.rep, self.world
        s = self.operand(ev['src'])
        d = self.operand(ev['dst'])
        if s is None or d is None:
            return {'out': 'skip'}
        q = ev['q']
        try:
            value, unit = M.parse_quantity(q)
        except Exception:
            raise HarnessError(f"bad quantity {q!r}")
        if s.cells is None and s.kind == 'plate' or d.cells is None and d.kind == 'plate':
            return {'out': 'skip'}
        form = self.pairing(s, d)
        same = s.base is d.base
        overlap = False
        if same and s.kind == 'plate':
            overlap = bool(set(s.cells) & set(d.cells))
        key = ('transfer', form, unit_class(unit))
        known = None
        if self.known is not None:
            known = self.known.match_transfer(self, ev, s, d, form, same, overlap, unit)
        plan = self.model_transfer(s, d, q, form, same)
        status = plan['status']
        if odd_spelling(q) and status == 'must_accept':
            status = plan['status'] = 'dont_care'
            self.stats['probe:prefixed_activity_unit'] += 1
        # fingerprints of operands before
        before_s = W.alpha(s.base)
        before_d = before_s if same else W.alpha(d.base)
        if d.kind == 'container':
            out = self.call(lambda: rep.Container.transfer(s.real, d.real, q))
        else:
            out = self.call(lambda: rep.Plate.transfer(s.real, d.real, q))
        stale = (s.ver != len(W.reg[s.name]) - 1) or (d.ver != len(W.reg[d.name]) - 1)
        self.sig.add(('transfer', form, s.kind + ('*' if s.whole else ''), d.kind + ('*' if d.whole else ''),
                      'same' if same else 'diff', 'overlap' if overlap else '-', unit_class(unit), status,
                      out[0] if out[0] in ('ok', 'ValueError') else 'other', 'stale' if stale else 'latest'))
        if status != 'unpredicted':
            self.judge(status, out, key, crash_prop='C07' if form not in ('c>c',) else 'C03',
                       known=known.get('id') if known and known.get('skip_judge') else None)
        rec = {'form': form, 'status': status, 'out': out[0], 'margin_rel': float(plan.get('margin_rel', 1))}
        if out[0] != 'ok' and form != 'c>c' and status == 'must_accept' and not overlap and not (known and known.get('skip_judge')):
            if self.reference_transfer_ok(s, d, form, q):
                self.V('C07', 'plate_op_refused', key + (out[0],),
                       f"the plate operation raised {out[0]} ({out[1]}) although the same transfers well by well through Container.transfer all succeed")
        if out[0] != 'ok':
            if status == 'must_refuse' or status == 'must_reject':
                self.stats['probe:refused_infeasible'] += 1
                if plan.get('pair', 0) >= 1:
                    self.stats['probe:infeasible_at_later_well'] += 1
            return rec
        rs, rd = out[1]
        # type of returned objects
        exp_s_type = rep.Container if s.kind == 'container' else rep.Plate
        exp_d_type = rep.Container if d.kind == 'container' else rep.Plate
        if not isinstance(rs, exp_s_type) or not isinstance(rd, exp_d_type):
            self.V('C07', 'result_type', key, f"returned {type(rs).__name__}, {type(rd).__name__}")
            return rec
        results = [('s', rs)] if (same and rs is rd) else [('s', rs), ('d', rd)]
        for role, obj in results:
            self.check_result_object(obj, key, role)
        if known and known.get('only_if_raises'):
            known = None            # the call returned: nothing of what the finding describes happened, everything is judged
            self.stats['probe:known_failure_region_call_returned'] += 1
        excuse = known.get('excuse', ()) if known else ()
        kid = known.get('id') if known else None
        # ---- C01 conservation on the real objects alone
        if status != 'must_refuse':
            self.check_conservation(key, [s.base] if same else [s.base, d.base], [o for _, o in results],
                                    plan.get('n_pairs', 1), kid if 'C01' in excuse else None)
        # ---- C01/C07 locality: wells not addressed are identical
        self.check_locality(key, s, rs, 's', kid if 'locality' in excuse else None,
                            also=(d.cells if same and d.kind == 'plate' else ()))
        if not (same and rs is rd):
            self.check_locality(key, d, rd, 'd', kid if 'locality' in excuse else None)
        # ---- C02: exact uniform aliquot vs model step from alpha(pre)
        if status in ('must_accept', 'dont_care') and 'ms' in plan:
            k2 = kid if 'C02' in excuse else None
            self.compare_side(plan, 's', s, rs, key, k2)
            self.compare_side(plan, 'd', d, rd, key, k2)
            if plan['n_pairs'] >= 2:
                self.stats['probe:broadcast_ok'] += 1
        # ---- C07: differential against container-level real code
        if form != 'c>c' and status in ('must_accept', 'dont_care') and not overlap:
            self.differential_transfer(ev, s, d, rs, rd, form, key, q, kid if 'C07' in excuse else None)
        if stale:
            self.stats['probe:stale_version_used'] += 1
        if status != 'must_refuse':
            named = []
            W.add(s.name, rs)
            named.append((s.name, rs))
            if not (same and rs is rd):
                W.add(d.name, rd)
                named.append((d.name, rd))
            self.n_ok_state += 1
            self.after_result(ev, named, key, transfer=(s, d, plan, before_s, before_d))
        return rec

    def compare_side(self, plan, side, op: Operand, real_obj, key, known):
        m = plan['ms'] if side == 's' else plan['md']
        tol = plan['tol']
        if op.kind == 'container':
            self.compare_vessel(real_obj, m, tol.get((side, None), {}), key, side, known=known)
        else:
            cells = set(c for (sd, c) in tol if sd == side and c is not None)
            if plan['ms'] is plan['md']:
                cells |= set(c for (sd, c) in tol if c is not None)
            for (r, c) in sorted(cells):
                t = dict(tol.get((side, (r, c)), {}))
                if plan['ms'] is plan['md']:
                    for sd in ('s', 'd'):
                        for n, x in tol.get((sd, (r, c)), {}).items():
                            t[n] = max(t.get(n, F(0)), x)
                self.compare_vessel(real_obj.wells[r, c], m.well((r, c)), t, key, side, known=known)

    def totals(self, objs):
        tot = {}
        for o in objs:
            wells = o.wells.flatten() if isinstance(o, self.rep.Plate) else [o]
            for w in wells:
                for sub, a in w.contents.items():
                    k = self.world.key_of(sub)
                    tot[k] = tot.get(k, F(0)) + F(a)
        return tot

    def check_conservation(self, key, before_objs, after_objs, n_pairs, known):
        W = self.world
        b = self.totals(before_objs)
        a = self.totals(after_objs)
        for n in sorted(set(a) | set(b)):
            x, y = b.get(n, F(0)), a.get(n, F(0))
            tol = W.units.q * (2 * n_pairs + 2) + abs(x) * F(1, 10 ** 13)
            err = abs(x - y)
            self.note_ratio('conservation', err, tol)
            if err > tol:
                self.V('C01', 'conservation', key,
                       f"{n}: total before {float(x):.12g}, after {float(y):.12g} (storage units)", known)

    def check_locality(self, key, op: Operand, result, role, known, also=()):
        if op.kind != 'plate':
            return
        addressed = set(op.cells) | set(also)
        base = op.base
        for r in range(base.n_rows):
            for c in range(base.n_columns):
                if (r, c) in addressed:
                    continue
                if fp_container(base.wells[r, c]) != fp_container(result.wells[r, c]):
                    d = fp_diff(fp_container(base.wells[r, c]), fp_container(result.wells[r, c]))
                    self.V('C01', 'locality', key + (role,), f"well ({r},{c}) not addressed but changed: {d}", known)
                    self.V('C07', 'locality', key + (role,), f"well ({r},{c}) not addressed but changed: {d}", known)
                    return

    # ---- differential oracle for C07 (real container-level code as the reference)
    def reference_transfer_ok(self, s, d, form, q):
        """Do the per-well container-level transfers (real code, free-standing copies) all succeed?"""
        rep = self.rep
        from copy import deepcopy
        CT = rep.Container.transfer
        try:
            if form == 'c>N':
                src = s.base
                for cell in d.cells:
                    src, _ = CT(src, deepcopy(d.base.wells[cell]), q)
            elif form == 'N>c':
                dst = d.base
                for cell in s.cells:
                    _, dst = CT(deepcopy(s.base.wells[cell]), dst, q)
            elif form == '1>N':
                src = deepcopy(s.base.wells[s.cells[0]])
                for cell in d.cells:
                    src, _ = CT(src, deepcopy(d.base.wells[cell]), q)
            elif form == 'N>1':
                dst = deepcopy(d.base.wells[d.cells[0]])
                for cell in s.cells:
                    _, dst = CT(deepcopy(s.base.wells[cell]), dst, q)
            elif form == 'N>N':
                for cs, cd in zip(s.cells, d.cells):
                    CT(deepcopy(s.base.wells[cs]), deepcopy(d.base.wells[cd]), q)
            else:
                return False
        except Exception:
            return False
        return True

    def differential_transfer(self, ev, s, d, rs, rd, form, key, q, known):
        rep = self.rep
        from copy import deepcopy
        CT = rep.Container.transfer

        def cur(exp, base, cell):
            # a well named twice in a list is visited twice: the second visit starts from the first visit's result
            return exp[cell] if cell in exp else deepcopy(base.wells[cell])
        try:
            if form == 'c>N':
                src = s.base
                exp = {}
                for cell in d.cells:
                    src, w = CT(src, cur(exp, d.base, cell), q)
                    exp[cell] = w
                self.diff_wells(rd, exp, key, 'd', known)
                self.diff_container(rs, src, key, 's', known)
            elif form == 'N>c':
                dst = d.base
                exp = {}
                for cell in s.cells:
                    w, dst = CT(cur(exp, s.base, cell), dst, q)
                    exp[cell] = w
                self.diff_wells(rs, exp, key, 's', known)
                self.diff_container(rd, dst, key, 'd', known)
            elif form == '1>N':
                src = deepcopy(s.base.wells[s.cells[0]])
                exp = {}
                for cell in d.cells:
                    src, w = CT(src, cur(exp, d.base, cell), q)
                    exp[cell] = w
                self.diff_wells(rd, exp, key, 'd', known)
                self.diff_wells(rs, {s.cells[0]: src}, key, 's', known)
            elif form == 'N>1':
                dst = deepcopy(d.base.wells[d.cells[0]])
                exp = {}
                for cell in s.cells:
                    w, dst = CT(cur(exp, s.base, cell), dst, q)
                    exp[cell] = w
                self.diff_wells(rs, exp, key, 's', known)
                self.diff_wells(rd, {d.cells[0]: dst}, key, 'd', known)
            elif form == 'N>N':
                es, ed = {}, {}
                for cs, cd in zip(s.cells, d.cells):
                    a, b = CT(cur(es, s.base, cs), cur(ed, d.base, cd), q)
                    es[cs], ed[cd] = a, b
                self.diff_wells(rs, es, key, 's', known)
                self.diff_wells(rd, ed, key, 'd', known)
        except Exception as exc:   # the reference itself refused: nothing to compare
            self.stats['differential_reference_raised'] += 1
            return
        self.stats['probe:differential_checked'] += 1

    def diff_container(self, real, ref, key, role, known, prop='C07', clause='per_well'):
        W = self.world
        mexp = W.alpha_container(ref)
        tol = {n: 4 * W.q_amt(n) for n in mexp.contents}
        self.compare_vessel(real, mexp, tol, key, role, prop=prop, clause=clause, known=known)
        ev_, rv = W.stored_volume(ref), W.stored_volume(real)
        if abs(ev_ - rv) > 8 * W.q_vol() + abs(ev_) * F(1, 10 ** 12):
            self.V(prop, clause, key + (role, 'volume'), f"{real.name}: volume {float(rv):.12g} vs reference {float(ev_):.12g}", known)
        if real.max_volume != ref.max_volume:
            self.V(prop, clause, key + (role, 'capacity'), f"{real.name}: capacity differs", known)

    def diff_wells(self, plate, exp: dict, key, role, known, prop='C07', clause='per_well'):
        for cell, ref in exp.items():
            self.diff_container(plate.wells[cell], ref, key, role, known, prop, clause)

    # ---- after a successful state-changing event: observers (C10), instructions (C19)
    def after_result(self, ev, named, key, **info):
        if len(self.world.keys_of_name) < len(self.world.msubs):
            for _, o in named:
                for w in (o.wells.flatten() if isinstance(o, self.rep.Plate) else [o]):
                    names = [s.name for s in w.contents]
                    if len(names) != len(set(names)):
                        self.stats['probe:twins_in_one_vessel'] += 1
                        break
        if self.obs:
            from . import observers
            observers.check_observers(self, ev, named, key)
        for hook in self.instr_hooks:
            hook(self, ev, named, key, info)

    # ---- remove
    def ev_remove(self, ev):
        rep, W = self.rep, self.world
        t = self.operand(ev['tgt'])
        if t is None or (t.kind == 'plate' and t.cells is None):
            return {'out': 'skip'}
        what = ev['what']
        real_what = W.rsubs[what] if what in W.rsubs else M.KIND_CODE[what]
        key = ('remove', t.kind + ('*' if t.whole else ''), 'class' if what in M.KIND_CODE else 'substance')
        fp_before = fingerprint(rep, t.real) if t.kind == 'plate' and not t.whole else None
        out = self.call(lambda: t.real.remove(real_what))
        self.judge('must_accept', out, key, crash_prop='C17')
        self.sig.add(('remove',) + key[1:] + (out[0],))
        if out[0] != 'ok':
            return {'out': out[0]}
        res = out[1]
        if fp_before is not None:
            self.check_slice_unchanged(t, fp_before, key)
        if not isinstance(res, rep.Container if t.kind == 'container' else rep.Plate):
            self.V('C17', 'result_type', key, f"returned {type(res).__name__}")
            return {'out': 'ok'}
        self.check_result_object(res, key, 'result')
        mpre = W.alpha(t.base)
        cells = [None] if t.kind == 'container' else t.cells
        n_sel = 0
        for cell in cells:
            pre = mpre if cell is None else mpre.well(cell)
            post_real = res if cell is None else res.wells[cell]
            exp, removed = W.model.remove(pre, what)
            n_sel += len(removed)
            post = W.alpha_container(post_real)
            for n in removed:
                if n in post.contents and post.contents[n] != 0:
                    self.V('C17', 'still_present', key, f"{post_real.name}: {n} still present ({float(post.contents[n]):.6g})")
                elif n in post.contents:
                    self.V('C17', 'still_present', key, f"{post_real.name}: {n} still listed with amount 0")
            for n, a in exp.contents.items():
                if post.contents.get(n) != a:
                    self.V('C17', 'other_changed', key,
                           f"{post_real.name}: {n} changed from {float(a):.12g} to {float(post.contents.get(n, 0)):.12g}")
            for n in post.contents:
                if n not in exp.contents and n not in removed:
                    self.V('C17', 'appeared', key, f"{post_real.name}: {n} appeared")
            vol = W.stored_volume(post_real)
            mvol = W.model.volume(exp)
            tolv = W.tol_volume(exp)
            if abs(vol - mvol) > tolv:
                self.V('C17', 'volume', key, f"{post_real.name}: volume {float(vol):.12g} L, remaining contents occupy {float(mvol):.12g} L")
            if cell is not None:
                ref = self.call(lambda: __import__('copy').deepcopy(t.base.wells[cell]).remove(real_what))
                if ref[0] == 'ok':
                    self.diff_container(post_real, ref[1], key, 'result', None)
        if t.kind == 'plate':
            self.check_locality_simple(key, t, res, 'C17')
        if n_sel:
            self.stats['probe:remove_selected_something'] += 1
        W.add(t.name, res)
        self.n_ok_state += 1
        self.after_result(ev, [(t.name, res)], key)
        return {'out': 'ok'}

    def check_slice_unchanged(self, t: Operand, fp_before, key):
        now = fingerprint(self.rep, t.real)
        if now != fp_before:
            self.V('C04', 'mutated', key[:1] + (t.kind, 'slice-argument'),
                   f"the slice the operation was called on now shows different wells: {fp_diff(fp_before, now)}")
        if t.real.plate is not t.base:
            # value-equal but re-pointed: detect by identity as a probe, judged by value above
            self.stats['slice_repointed_same_value'] += 1

    def check_locality_simple(self, key, t: Operand, res, prop):
        addressed = set(t.cells)
        base = t.base
        for r in range(base.n_rows):
            for c in range(base.n_columns):
                if (r, c) not in addressed and fp_container(base.wells[r, c]) != fp_container(res.wells[r, c]):
                    d = fp_diff(fp_container(base.wells[r, c]), fp_container(res.wells[r, c]))
                    self.V('C07', 'locality', key, f"well ({r},{c}) not addressed but changed: {d}")
                    if prop != 'C07':
                        self.V(prop, 'locality', key, f"well ({r},{c}) not addressed but changed: {d}")
                    return

    # ---- fill_to
    def ev_fill_to(self, ev):
        rep, W = self.rep, self.world
        t = self.operand(ev['tgt'])
        if t is None or (t.kind == 'plate' and t.cells is None):
            return {'out': 'skip'}
        solvent, q = ev['solvent'], ev['q']
        value, unit = M.parse_quantity(q)
        key = ('fill_to', t.kind + ('*' if t.whole else ''), unit_class(unit) if unit in ('L', 'g', 'mol', 'U') else unit)
        known = None
        if self.known is not None:
            known = self.known.match_fill_to(self, ev, t, solvent, unit)
        mpre = W.alpha(t.base)
        cells = [None] if t.kind == 'container' else t.cells
        status = 'must_accept'
        exp = {}
        for k, cell in enumerate(cells):
            pre = mpre if cell is None else mpre.well(cell)
            try:
                nv, info = W.model.fill_to(pre, solvent, q)
            except M.Refuse as r:
                band = self.band_fill(pre, unit, solvent)
                if r.reason == 'exceeds capacity':
                    band = self.band_cap(pre) + self.band_fill(pre, 'L', solvent)
                if r.margin is not None and r.reason in ('below current quantity', 'exceeds capacity') and -r.margin < band:
                    status = 'dont_care'
                    continue
                if r.reason == 'solvent cannot be measured in that unit':
                    status = 'dont_care'        # e.g. an enzyme as solvent for a fill by moles: not judged
                    continue
                status = 'must_refuse'
                refuse_at = k
                break
            band = self.band_fill(pre, unit, solvent)
            if info['margin_low'] < band:
                status = 'dont_care' if status == 'must_accept' else status
            if info['margin_cap'] is not None and info['margin_cap'] < self.band_cap(nv) + self.band_fill(pre, 'L', solvent):
                # (representable volumes before the fill as well as after it: the vessel's stored volume is the rounded sum of
                # what it held, and a filler that is already present merges with its earlier portion in the model after)
                if info['margin_cap'] == 0 and unit == 'L' and self.is_fresh(t) and self.exact_ok(nv) and self.exact_ok(pre):
                    self.stats['probe:exact_capacity_request'] += 1
                else:
                    status = 'dont_care' if status == 'must_accept' else status
            exp[cell] = (nv, info)
        fp_before = fingerprint(rep, t.real) if t.kind == 'plate' and not t.whole else None
        out = self.call(lambda: t.real.fill_to(W.rsubs[solvent], q))
        self.sig.add(('fill_to',) + key[1:] + (status, out[0] if out[0] in ('ok', 'ValueError') else 'other',
                                               W.msubs[solvent].kind))
        if not (known and known.get('skip_judge')):
            self.judge(status, out, key, crash_prop='C11', also='C11')
        if out[0] != 'ok' and t.kind == 'plate' and status == 'must_accept':
            from copy import deepcopy
            refs = [self.call(lambda c=cell: deepcopy(t.base.wells[c]).fill_to(W.rsubs[solvent], q)) for cell in cells]
            if all(r[0] == 'ok' for r in refs):
                self.V('C07', 'plate_op_refused', key + (out[0],),
                       f"fill_to on the plate raised {out[0]} ({out[1]}) although Container.fill_to succeeds on every addressed well")
        if out[0] != 'ok':
            if status == 'must_refuse':
                self.stats['probe:refused_infeasible'] += 1
            return {'out': out[0], 'status': status}
        res = out[1]
        if fp_before is not None:
            self.check_slice_unchanged(t, fp_before, key)
        if not isinstance(res, rep.Container if t.kind == 'container' else rep.Plate):
            self.V('C11', 'result_type', key, f"returned {type(res).__name__}")
            return {'out': 'ok'}
        self.check_result_object(res, key, 'result')
        kid = known.get('id') if known else None
        excuse = known.get('excuse', ()) if known else ()
        if status in ('must_accept', 'dont_care'):
            for cell in cells:
                if cell not in exp:
                    continue
                nv, info = exp[cell]
                post_real = res if cell is None else res.wells[cell]
                pre = mpre if cell is None else mpre.well(cell)
                self.check_only_solvent_grew(pre, post_real, solvent, key, 'C11', kid if 'C11' in excuse else None)
                # target reached, measured in the unit requested
                post = W.alpha_container(post_real)
                tot = W.model.total(post, unit)
                tol = self.band_fill(post, unit, solvent) + abs(value) * F(1, 10 ** 9)
                self.note_ratio('fill_target', abs(tot - value), tol)
                if abs(tot - value) > tol:
                    self.V('C11', 'fill_target', key, f"{post_real.name}: total is {float(tot):.12g} {unit}, target {float(value):.12g} {unit}",
                           kid if 'C11' in excuse else None)
                if cell is not None:
                    def ref_fill():
                        # a well named twice in a list is filled twice (the second time tops up rounding residue at most)
                        w = __import__('copy').deepcopy(t.base.wells[cell])
                        for _ in range(cells.count(cell)):
                            w = w.fill_to(W.rsubs[solvent], q)
                        return w
                    ref = self.call(ref_fill)
                    if ref[0] == 'ok':
                        self.diff_container(post_real, ref[1], key, 'result', kid if 'C07' in excuse else None)
            if t.kind == 'plate':
                self.check_locality_simple(key, t, res, 'C11')
        if status != 'must_refuse':
            W.add(t.name, res)
            self.n_ok_state += 1
            self.after_result(ev, [(t.name, res)], key, fill=(t, exp, mpre))
        return {'out': 'ok', 'status': status}

    def band_fill(self, mv, unit, solvent):
        W = self.world
        return 40 * W.slack_total(mv, unit, extra=(solvent,)) + (40 * W.q_vol() * (len(mv.contents) + 2) if unit == 'L' else 0) \
            + W.model.total(mv, unit) * F(1, 10 ** 8)

    def check_only_solvent_grew(self, pre: M.MVessel, post_real, solvent, key, prop, known):
        W = self.world
        post = W.alpha_container(post_real)
        for n in dict.fromkeys(list(pre.contents) + list(post.contents)):
            a, b = pre.contents.get(n, F(0)), post.contents.get(n, F(0))
            if n == solvent:
                if b < a - 20 * W.q_amt(n):
                    self.V(prop, 'solvent_decreased', key, f"{post_real.name}: solvent {n} went from {float(a):.12g} to {float(b):.12g}", known)
            elif a != b:
                self.V(prop, 'other_changed', key, f"{post_real.name}: {n} changed from {float(a):.12g} to {float(b):.12g}", known)

    # ---- dilute
    def ev_dilute(self, ev):
        rep, W = self.rep, self.world
        t = self.operand(ev['tgt'])
        if t is None or t.kind != 'container':
            return {'out': 'skip'}
        solute, conc, solvent, new_name = ev['solute'], ev['conc'], ev['solvent'], ev.get('name')
        c, num, den = M.parse_concentration(conc, W.model.wv)
        key = ('dilute', f"{num}/{den}", W.msubs[solvent].kind)
        known = None
        if self.known is not None:
            known = self.known.match_dilute(self, ev, t)
        pre = W.alpha_container(t.base)
        status = 'must_accept'
        nv = info = None
        sure_higher = False
        # conditioning: how far the library's rounding of stored amounts and of the parsed target can move the answer
        cond = W.units.q / c + F(1, 10 ** 6)
        tot_den = W.model.total(pre, den)
        if pre.contents.get(solute, 0) > 0:
            cond += 20 * W.q_amt(solute) / pre.contents[solute]
        if tot_den > 0:
            cond += 20 * W.slack_total(pre, den, extra=(solvent,)) / tot_den
        ill = cond > F(1, 1000)
        if ill:
            self.stats['dilute_ill_conditioned'] += 1
        try:
            nv, info = W.model.dilute(pre, solute, conc, solvent, new_name)
            if info.get('margin_rel') is not None and info['margin_rel'] < F(2, 100):
                status = 'dont_care'
            # how much solvent is needed is known only as well as the target is (the library rounds the parsed target to
            # p decimals in base units: for a trace solute that is a per-mille matter): 3 * cond of the final volume
            if info['margin_cap'] is not None and info['margin_cap'] < self.band_cap(nv) + abs(info['added']) * W.msubs[solvent].per_amount('L') * F(1, 10 ** 6) \
                    + 3 * cond * W.model.volume(nv):
                status = 'dont_care'
        except M.Refuse as r:
            status = 'must_refuse'
            if r.reason in ('solvent cannot be measured in denominator unit', 'solute cannot be measured in numerator unit'):
                status = 'dont_care'
            if r.margin is not None and r.reason == 'higher than current' and -r.margin < F(2, 100):
                status = 'dont_care'
            # however coarse the target (nanomolar: the parsed target is rounded to 1e-10 base units), a target that exceeds
            # the current concentration by more than three times that coarseness plus 2 % cannot be reached by adding solvent
            if r.margin is not None and r.reason == 'higher than current' and cond < F(1, 10) and -r.margin > F(2, 100) + 3 * cond:
                sure_higher = True
            if r.margin is not None and r.reason == 'exceeds capacity':
                # (+ the absolute band of a capacity test on this vessel: at sub-nanolitre scale the library's volume
                # bookkeeping - enzyme volumes rounded in litres - is coarser than 1e-4 of the capacity)
                status = 'must_refuse' if -r.margin > (F(1, 10 ** 4) + 3 * cond) * (pre.cap or 1) + self.band_cap(pre) + W.tol_volume(pre) \
                    else 'dont_care'
        coarse = ill and status == 'must_accept' and cond < F(1, 10)
        if ill and status != 'dont_care' and not sure_higher:
            status = 'dont_care'
        kw = {'name': new_name} if new_name else {}
        out = self.call(lambda: t.real.dilute(W.rsubs[solute], conc, W.rsubs[solvent], **kw))
        self.sig.add(('dilute', num, den, W.msubs[solvent].kind, len(pre.contents), solvent in pre.contents,
                      status, out[0] if out[0] in ('ok', 'ValueError') else 'other'))
        if not (known and known.get('skip_judge')):
            self.judge(status, out, key, crash_prop='C11', also='C11')
        if out[0] != 'ok':
            if status == 'must_refuse':
                self.stats['probe:refused_infeasible'] += 1
            return {'out': out[0], 'status': status}
        res = out[1]
        if not isinstance(res, rep.Container):
            self.V('C11', 'result_type', key, f"returned {type(res).__name__}")
            return {'out': 'ok'}
        self.check_result_object(res, key, 'result')
        kid = known.get('id') if known else None
        excuse = known.get('excuse', ()) if known else ()
        k11 = kid if 'C11' in excuse else None
        if status in ('must_accept', 'dont_care'):
            self.check_only_solvent_grew(pre, res, solvent, key, 'C11', k11)
            if status == 'must_accept' or coarse:
                post = W.alpha_container(res)
                got = W.model.concentration_base(post, solute, num, den)
                rel = abs(got - c) / c if got is not None else None
                # the library rounds a parsed concentration to p decimals in base units (mol/L, g/g, ...)
                tol = cond
                if coarse:
                    # nanomolar targets: the rounding of the parsed target alone is percents of the target.  The decision is
                    # not judged, the result still is - within three times what that rounding can do
                    tol = 3 * cond
                    self.stats['probe:dilute_coarse_target_checked'] += 1
                if rel is not None:
                    self.note_ratio('dilute_target', rel, tol)
                if rel is None or rel > tol:
                    self.V('C11', 'dilute_target', key + (len(pre.contents), solvent in pre.contents),
                           f"{res.name}: concentration of {solute} is {float(got) if got is not None else None:.9g} {num}/{den}, target {float(c):.9g}", k11)
                self.stats['probe:dilute_checked'] += 1
                if len([n for n, a in pre.contents.items() if a > 0]) >= 3:
                    self.stats['probe:dilute_multicomponent'] += 1
        if status != 'must_refuse':
            W.add(res.name if self.world.kind.get(res.name, 'container') == 'container' else t.name, res)
            self.n_ok_state += 1
            self.after_result(ev, [(res.name, res)], key, dilute=(t, pre, info))
        return {'out': 'ok', 'status': status}

    # ---- state builders (not modelled: C05 / C12 are not claimed); results are adopted
    def ev_solution(self, ev):
        rep, W = self.rep, self.world
        solutes = [W.rsubs[n] for n in ev['solutes']]
        solv = ev['solvent']
        key = ('solution', 'container-solvent' if isinstance(solv, list) else 'pure-solvent', '-')
        sop = None
        if isinstance(solv, list):
            sop = self.operand(solv)
            if sop is None or sop.kind != 'container':
                return {'out': 'skip'}
            solvent = sop.base
        else:
            solvent = W.rsubs[solv]
        kwargs = {k: (self.guard(list(v), k) if isinstance(v, list) else v) for k, v in ev['kwargs'].items()}
        sol_arg = solutes[0] if len(solutes) == 1 and not ev.get('aslist') else self.guard(solutes, 'solute')
        out = self.call(lambda: rep.Container.create_solution(sol_arg, solvent, ev['name'], **kwargs))
        self.sig.add(('solution', key[1], len(solutes), tuple(sorted(kwargs)), out[0] == 'ok'))
        if out[0] != 'ok':
            return {'out': out[0]}
        res = out[1]
        named = []
        sop_pre = sop.base if sop is not None else None
        if sop is not None:
            resid, sol = res
            self.check_result_object(resid, key, 'residual')
            self.check_result_object(sol, key, 'solution')
            self.check_conservation_builder(key, sop.base, resid, sol, ev)
            W.add(sop.name, resid)
            W.add(ev['name'], sol)
            named = [(sop.name, resid), (ev['name'], sol)]
        else:
            self.check_result_object(res, key, 'solution')
            W.add(ev['name'], res)
            named = [(ev['name'], res)]
        self.n_ok_state += 1
        kf = self.known.match_solution(self, ev, sop) if self.known is not None and sop is not None else None
        self.after_result(ev, named, key, builder=True, solvent_pre=sop_pre, known=kf)
        rec = {'out': 'ok'}
        if sop is not None and sop.base.volume > 0:
            # how far the request was from needing everything the solvent container holds (C18 compares decisions only
            # away from that boundary)
            rec['margin_rel'] = float(resid.volume) / float(sop.base.volume)
        return rec

    def check_conservation_builder(self, key, before, resid, sol, ev):
        """Only used as a reach probe; create_solution is not judged (C05 not claimed)."""
        self.stats['probe:solution_from_container_solvent'] += 1

    def ev_solution_from(self, ev):
        rep, W = self.rep, self.world
        sop = self.operand(ev['src'])
        if sop is None or sop.kind != 'container':
            return {'out': 'skip'}
        solv = ev['solvent']
        vop = None
        if isinstance(solv, list):
            vop = self.operand(solv)
            if vop is None or vop.kind != 'container':
                return {'out': 'skip'}
            solvent = vop.base
        else:
            solvent = W.rsubs[solv]
        key = ('solution_from', 'container-solvent' if vop else 'pure-solvent', '-')
        out = self.call(lambda: rep.Container.create_solution_from(sop.base, W.rsubs[ev['solute']], ev['conc'],
                                                                   solvent, ev['q'], ev['name']))
        self.sig.add(('solution_from', key[1], out[0] == 'ok'))
        if out[0] != 'ok':
            return {'out': out[0]}
        res = out[1]
        named = [(sop.name, res[0])]
        W.add(sop.name, res[0])
        if vop is not None:
            W.add(vop.name, res[1])
            named.append((vop.name, res[1]))
        W.add(ev['name'], res[-1])
        named.append((ev['name'], res[-1]))
        for n, o in named:
            self.check_result_object(o, key, 'result')
        self.n_ok_state += 1
        self.after_result(ev, named, key, builder=True)
        rec = {'out': 'ok'}
        fr = [float(r.volume) / float(b.volume) for r, b in ([(res[0], sop.base)] + ([(res[1], vop.base)] if vop is not None else []))
              if b.volume > 0]
        if fr:
            rec['margin_rel'] = min(fr)     # distance from draining the stock / the solvent container completely
        return rec

    # ---- keep a slice alive across events (aliasing probe for C04)
    def ev_hold_slice(self, ev):
        t = self.operand(ev['tgt'])
        if t is None or t.kind != 'plate' or t.whole or t.cells is None:
            return {'out': 'skip'}
        self.world.extra_live.append((f"slice of {t.name}@{t.ver}", t.real, fingerprint(self.rep, t.real)))
        if 'hid' in ev:
            self.held[ev['hid']] = {'name': t.name, 'ver': t.ver, 'sel': t.sel, 'real': t.real}
        # the user looks at the slice before using it (whatever the library memoises on the object is now populated)
        for r in ev.get('read', ()):
            out = self.call({'get': lambda: t.real.get(), 'shape': lambda: (t.real.shape, t.real.size),
                             'volumes': lambda: t.real.get_volumes(), 'substances': lambda: t.real.get_substances(),
                             'repr': lambda: repr(t.real)}[r])
            self.stats['probe:held_slice_read'] += 1
            if out[0] != 'ok':
                self.stats['held_read_raised'] += 1
            elif r == 'shape' and t.shape is not None and (tuple(out[1][0]) != tuple(t.shape) or out[1][1] != len(t.cells)):
                self.V('C07', 'slice_shape', ('hold_slice', 'shape'), f"slice {t.sel!r}: shape/size reported {out[1]!r}, selects {t.shape} / {len(t.cells)} wells")
        return {'out': 'ok'}
