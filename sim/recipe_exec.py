"""Engine B executor: recipe API call histories on the real Recipe, beside three observers:

  * eager reference (C08): name -> object map advanced through the *direct* API in step order;
  * ledger (C09, C15, C17, C19): model snapshot of every object at every step boundary + discarded amounts;
  * life-cycle machine (C16): predicts accept / reject / RuntimeError for every call.
"""
from __future__ import annotations

import random
from collections import Counter
from fractions import Fraction as F

from . import model as M
from .bench import Bench, selector_arg, slice_of
from .common import Violation, HarnessError
from .world import fingerprint, fp_container, fp_plate, fp_diff

STEP_CALLS = ('create_container', 'create_solution', 'create_solution_from', 'transfer', 'remove', 'dilute', 'fill_to')


def fp_container_contents(c):
    return tuple((s.name, s._type, repr(a)) for s, a in c.contents.items()), repr(c.volume)


class LifeCycle:
    """Reference state machine of DESIGN appendix B."""

    def __init__(self):
        self.declared = []
        self.step_uses = []        # per step: set of names it uses
        self.open_stage = None
        self.stage_names = {'all'}
        self.stages = {}           # name -> (start, end)
        self.stage_start = 0
        self.locked = False
        self.failed_bake = False
        self.late_refusal = False  # a call was accepted whose refusal may come at bake (undeclared operand of create_*)

    @property
    def n_steps(self):
        return len(self.step_uses)

    def unused(self):
        used = set().union(*self.step_uses) if self.step_uses else set()
        return [n for n in self.declared if n not in used]


class RecipeRun:
    def __init__(self, rep, subs, known=None, profile=None):
        self.rep = rep
        self.bench = Bench(rep, subs, known=known, cache_policy=(profile or {}).get('cache_policy', 'never'), obs=False)
        from . import oracle_instr
        oracle_instr.install(self.bench)
        self.W = self.bench.world
        self.known = known
        self.violations = self.bench.violations
        self.stats = self.bench.stats
        self.sig = self.bench.sig
        self.log = self.bench.log
        self.max_ratio = self.bench.max_ratio
        self.allowances = self.bench.allowances
        self.recipe = rep.Recipe()
        self.lc = LifeCycle()
        self.handles = {}       # name -> object the user holds (declared object / returned by create_*)
        self.handle_fps = {}    # name -> fingerprint when handed over
        self.handle_views = {}  # name -> what the object's own observers say when handed over (a copy, not their return value)
        self.eager = {}         # name -> current object of the eager reference
        self.eager_ok = True    # False once an accepted step was infeasible for the eager reference
        self.eager_fail_step = None
        self.steps = []         # accepted step-adding calls: dict(call=..., uses=set, to=name, frm=name|None, trash={}, subs_used=set)
        self.snap = []          # snap[i] = {name: model} before step i ; snap[n] after the last
        self.baked = None       # dict returned by a successful bake
        self.bake_failed = False
        self.n_calls = 0
        self.idx = -1
        self.n_ok_state = 0
        self.excused = set()    # known-finding ids whose trigger matched in this run (run-level excuses)
        self.held = []          # slices the user built and handed to recipe calls: (label, object, fingerprint)
        self.held_info = []     # (plate name, selector) of each
        self.arg_lists = []     # lists handed to recipe calls (the recipe keeps them until bake): (label, list, copy)
        self.renamed = set()    # declared names whose container a dilute step renames (known finding: tracking loses *them*)
        self.near_capacity_fill = False
        self.near_boundary_transfer = False
        self.min_margin_rel = F(1)
        self.had_fill = False
        self.noise_rel = F(0)   # bake applies fill_to twice: relative noise this can induce downstream (conditioning of later ratios)
        self.peak = {}          # substance -> largest amount seen in any vessel of the eager reference
        self.abs_noise = {}     # substance -> absolute allowance from ill-conditioned steps downstream of a doubled fill_to
        self.shadow = None      # a second Recipe object given the same calls, interleaved (see shadow_call)
        if (profile or {}).get('shadow'):
            self.shadow = {'R': rep.Recipe(), 'handles': {}, 'baked': None}
        self.panel_before = None

    # ------------------------------------------------------------------ plumbing
    def V(self, prop, clause, key, detail, known=None):
        v = Violation(prop, clause, key, self.idx, detail, known)
        self.violations.append(v)
        return v

    def nontrivial(self, prop):
        return len(self.steps) >= 2

    def call(self, fn):
        try:
            return ('ok', fn())
        except RuntimeError as e:
            return ('RuntimeError', e)
        except ValueError as e:
            return ('ValueError', e)
        except (KeyboardInterrupt, MemoryError):
            raise
        except Exception as e:  # noqa
            return (type(e).__name__, e)

    def model_of(self, obj):
        return self.W.alpha(obj)

    def snapshot(self):
        return {n: self.model_of(o) for n, o in self.eager.items()}

    # ------------------------------------------------------------------ prelude (objects made outside the recipe)
    def prelude(self, events):
        for ev in events:
            self.bench.step(ev)

    def obj(self, name):
        """Latest version on the bench."""
        o, _ = self.W.resolve(name, -1)
        return o

    # ------------------------------------------------------------------ operands
    def handle_ref(self, ref):
        """User-side operand for a recipe call: the handle, or a slice of the handle plate."""
        name = ref[0]
        h = self.handles.get(name)
        if h is None:
            h = self.obj(name)       # an object that was never declared
        if h is None:
            return None
        if len(ref) > 1 and ref[1] is not None and isinstance(h, self.rep.Plate):
            sel = ref[1]
            if sel.get('k') == 'all':
                return h
            sl = slice_of(h, sel)
            if len(self.held) < 40:
                self.held.append((f"slice of {name} handed to call {self.idx}", sl, fingerprint(self.rep, sl)))
                self.held_info.append((name, sel, h))        # h: the very plate object the slice was taken from
            return sl
        return h

    def eager_ref(self, ref, cur):
        name = ref[0]
        o = cur.get(name)
        if o is None:
            raise KeyError(name)
        if len(ref) > 1 and ref[1] is not None and isinstance(o, self.rep.Plate):
            sel = ref[1]
            if sel.get('k') == 'all':
                return o
            return slice_of(o, sel)
        return o

    def cells_of(self, ref, cur):
        o = cur.get(ref[0])
        if o is None or not isinstance(o, self.rep.Plate):
            return None
        sel = ref[1] if len(ref) > 1 and ref[1] is not None else {'k': 'all'}
        cells, _ = M.select(sel, (o.n_rows, o.n_columns))
        return cells

    # ------------------------------------------------------------------ eager application of one step through the direct API
    def apply_eager(self, c, cur):
        """-> dict of updates {name: new object}; raises whatever the direct API raises."""
        rep, W = self.rep, self.W
        k = c['c']
        if k == 'create_container':
            kwargs = {}
            if c.get('cap') is not None:
                kwargs['max_volume'] = c['cap']
            if c.get('contents'):
                kwargs['initial_contents'] = [(W.rsubs[s], q) for s, q in c['contents']]
            return {c['name']: rep.Container(c['name'], **kwargs)}
        if k == 'create_solution':
            solutes = [W.rsubs[n] for n in c['solutes']]
            sol_arg = solutes[0] if len(solutes) == 1 and not c.get('aslist') else solutes
            solv = c['solvent']
            if isinstance(solv, dict):
                res = rep.Container.create_solution(sol_arg, cur[solv['obj']], c['name'], **c['kwargs'])
                return {solv['obj']: res[0], c['name']: res[1]}
            return {c['name']: rep.Container.create_solution(sol_arg, W.rsubs[solv], c['name'], **c['kwargs'])}
        if k == 'create_solution_from':
            res = rep.Container.create_solution_from(cur[c['src']], W.rsubs[c['solute']], c['conc'], W.rsubs[c['solvent']],
                                                     c['q'], c['name'])
            return {c['src']: res[0], c['name']: res[1]}
        if k == 'transfer':
            s = self.eager_ref(c['src'], cur)
            d = self.eager_ref(c['dst'], cur)
            if isinstance(cur[c['dst'][0]], rep.Container):
                rs, rd = rep.Container.transfer(s, d, c['q'])
            else:
                rs, rd = rep.Plate.transfer(s, d, c['q'])
            if c['src'][0] == c['dst'][0]:
                return {c['dst'][0]: rd}
            return {c['src'][0]: rs, c['dst'][0]: rd}
        if k == 'remove':
            what = c['what']
            real_what = W.rsubs[what] if what in W.rsubs else M.KIND_CODE[what]
            return {c['tgt'][0]: self.eager_ref(c['tgt'], cur).remove(real_what)}
        if k == 'dilute':
            kw = {'name': c['name']} if c.get('name') else {}
            return {c['tgt'][0]: cur[c['tgt'][0]].dilute(W.rsubs[c['solute']], c['conc'], W.rsubs[c['solvent']], **kw)}
        if k == 'fill_to':
            return {c['tgt'][0]: self.eager_ref(c['tgt'], cur).fill_to(W.rsubs[c['solvent']], c['q'])}
        raise HarnessError(k)

    def try_eager(self, c):
        """Dry application on the current eager state (values are immutable, so nothing needs undoing)."""
        try:
            return ('ok', self.apply_eager(c, self.eager))
        except (KeyboardInterrupt, MemoryError):
            raise
        except Exception as e:  # noqa
            return (type(e).__name__, e)

    def at_pure_solute_limit(self, c):
        W = self.W
        try:
            value, num, den = M.parse_concentration(c['conc'], W.model.wv)
            ms = W.msubs[c['solute']]
            kn, kd = ms.per_amount(num), ms.per_amount(den)
        except Exception:  # noqa
            return False
        if kd <= 0 or kn <= 0:
            return False
        pure = kn / kd
        return value >= pure * (1 - F(1, 10 ** 9))

    # ------------------------------------------------------------------ two recipes side by side
    def shadow_call(self, c, main_kind, objs=None):
        """The same call on a second, independent Recipe object, interleaved with the first.  Two recipes given the same
        calls with the same objects must decide alike and bake to identical results: whatever differs was carried from
        one Recipe object to the other (class-level state, tables keyed by names).  No tolerance is involved."""
        sh = self.shadow
        if sh is None:
            return
        k = c['c']
        R2 = sh['R']
        save = (self.recipe, self.handles, self.held, self.held_info)
        self.recipe, self.handles, self.held, self.held_info = R2, dict(self.handles, **sh['handles']), [], []
        try:
            if k == 'uses':
                fn = (lambda: R2.uses(objs)) if c.get('aslist') else (lambda: R2.uses(*objs))
            elif k in STEP_CALLS:
                fn = self.build_recipe_call(c)
            elif k == 'start_stage':
                fn = lambda: R2.start_stage(c['name'])  # noqa: E731
            elif k == 'end_stage':
                fn = lambda: R2.end_stage(c['name'])  # noqa: E731
            elif k == 'bake':
                fn = lambda: R2.bake()  # noqa: E731
            else:
                return
        finally:
            self.recipe, self.handles, self.held, self.held_info = save
        if fn is None:
            return
        out = self.call(fn)
        self.stats['probe:shadow_recipe_calls'] += 1
        if out[0] != main_kind:
            self.V('C08', 'recipes_interfere', (k, 'outcome'),
                   f"{k}: the first of two recipes given the same calls -> {main_kind}, the second -> {out[0]}"
                   + (f": {out[1]}" if out[0] != 'ok' else ''), self.first_excuse(('C08',)))
            self.shadow = None          # no point in going on once they have diverged
            return
        if out[0] != 'ok':
            return
        if k in ('create_container', 'create_solution', 'create_solution_from'):
            sh['handles'][c['name']] = out[1]
        if k == 'bake' and isinstance(out[1], dict) and self.baked is not None:
            sh['baked'] = out[1]
            rep = self.rep
            for n, o in self.baked.items():
                o2 = out[1].get(n)
                if o2 is None or fingerprint(rep, o) != fingerprint(rep, o2):
                    self.V('C08', 'recipes_interfere', ('bake', 'result'),
                           f"{n}: two recipes given the same calls baked different results: "
                           f"{fp_diff(fingerprint(rep, o), fingerprint(rep, o2)) if o2 is not None else 'missing in the second'}",
                           self.first_excuse(('C08',)))
                    break
            else:
                self.stats['probe:shadow_recipe_identical'] += 1
                from . import tracking
                p1 = tracking.fixed_panel(self)
                self.recipe, b1 = R2, self.baked
                self.baked = out[1]
                try:
                    p2 = tracking.fixed_panel(self)
                finally:
                    self.recipe, self.baked = save[0], b1
                if p1 != p2:
                    d = next((x, y) for x, y in zip(p1, p2) if x != y)
                    for prop in ('C09', 'C15'):
                        self.V(prop, 'recipes_interfere', ('tracking',),
                               f"two recipes given the same calls answer differently: {d[0]} vs {d[1]}", self.first_excuse((prop,)))

    # ------------------------------------------------------------------ names a call uses / declares
    def call_names(self, c):
        """-> (operand names that must be declared, name declared by the call or None, names the step uses)"""
        k = c['c']
        if k == 'create_container':
            return [], c['name'], {c['name']}
        if k == 'create_solution':
            solv = c['solvent']
            if isinstance(solv, dict):
                return [], c['name'], {c['name'], solv['obj']}      # the library does not require the solvent to be declared
            return [], c['name'], {c['name']}
        if k == 'create_solution_from':
            return [], c['name'], {c['name'], c['src']}             # refusal for an undeclared source comes at bake
        if k == 'transfer':
            return [c['src'][0], c['dst'][0]], None, {c['src'][0], c['dst'][0]}
        if k in ('remove', 'dilute', 'fill_to'):
            return [c['tgt'][0]], None, {c['tgt'][0]}
        return [], None, set()

    # ------------------------------------------------------------------ one API call
    def do_call(self, c):
        self.idx += 1
        self.n_calls += 1
        k = c['c']
        lc = self.lc
        rep, W, R = self.rep, self.W, self.recipe
        rec = {'c': k}
        key = (k,)
        fn = None
        # ---------------- prediction by the life-cycle machine
        pred = 'accept'
        why = ''
        if k == 'uses':
            objs = [self.obj(n) for n in c['objs']]
            if c.get('vers'):
                objs = [self.W.resolve(n, v)[0] for n, v in zip(c['objs'], c['vers'])]
            if any(o is None for o in objs):
                return {'c': k, 'out': 'skip'}
            if lc.locked:
                pred, why = 'RuntimeError', 'locked'
            elif any(n in lc.declared for n in c['objs']) or len(set(c['objs'])) != len(c['objs']):
                pred, why = 'reject', 'duplicate name'
            fn = (lambda: R.uses(objs)) if c.get('aslist') else (lambda: R.uses(*objs))
        elif k in STEP_CALLS:
            need, declares, uses = self.call_names(c)
            if lc.locked:
                pred, why = 'RuntimeError', 'locked'
            elif any(n not in lc.declared for n in need):
                pred, why = 'reject', 'undeclared operand'
            elif c.get('must_reject'):
                pred, why = 'reject', 'malformed arguments'
            elif declares is not None and declares in lc.declared:
                pred, why = 'reject', 'duplicate name'
            elif k in ('create_solution', 'create_solution_from') and any(n not in lc.declared for n in uses if n != declares):
                pred, why = 'unspecified', 'undeclared operand of create_* (refusal may come at bake)'
            fn = self.build_recipe_call(c)
            if fn is None:
                return {'c': k, 'out': 'skip'}
        elif k == 'start_stage':
            if lc.locked:
                pred, why = 'unspecified', 'stage call after bake'
            elif lc.open_stage is not None or c['name'] in lc.stage_names:
                pred, why = 'reject', 'stage already open or name taken'
            fn = lambda: R.start_stage(c['name'])  # noqa: E731
        elif k == 'end_stage':
            if lc.locked:
                pred, why = 'unspecified', 'stage call after bake'
            elif lc.open_stage is None or lc.open_stage != c['name']:
                pred, why = 'reject', 'no such open stage'
            fn = lambda: R.end_stage(c['name'])  # noqa: E731
        elif k == 'bake':
            return self.do_bake(c)
        elif k.startswith('q_'):
            from . import tracking
            tracking.do_query(self, c)
            self.log.append({'c': k})
            return {'c': k}
        else:
            raise HarnessError(k)
        # ---------------- run it
        n_steps_before = len(R.steps)
        out = self.call(fn)
        kind = out[0]
        rec['out'] = kind
        rec['pred'] = pred
        if self.shadow is not None and not lc.locked:
            self.shadow_call(c, kind, objs if k == 'uses' else None)
        self.sig.add(('call', k, pred, kind if kind in ('ok', 'ValueError', 'RuntimeError') else 'other', lc.locked, lc.open_stage is not None))
        # a call that is not well-formed for reasons outside the life cycle (bad concentration ...) may be rejected
        soft = c.get('may_be_invalid', False)
        if pred == 'accept' and kind != 'ok' and not soft:
            if k in STEP_CALLS and self.eager_ok and self.try_eager(c)[0] != 'ok':
                # the step itself is infeasible on the current state: refusing it at declaration time instead of at
                # bake is not a life-cycle matter
                self.stats['early_refusal_of_infeasible_step'] += 1
            elif k in STEP_CALLS and not self.eager_ok:
                self.stats['early_refusal_unjudged'] += 1
            elif k in ('dilute', 'create_solution_from') and kind != 'RuntimeError':
                # these two validate the concentration at declaration time with a legacy helper; such a rejection is
                # argument validation, not life-cycle discipline (C16 says what is refused, not that all else is accepted).
                # It is a C08 matter though: the direct operation accepts this very step on the current state, so the
                # sequence is valid and the recipe cannot even be told about it.
                self.stats['concentration_validation_unjudged_for_C16'] += 1
                if kind == 'ValueError' and self.at_pure_solute_limit(c):
                    # the target is the concentration of the pure solute to within float noise: a feasibility boundary
                    # (anything above it cannot exist), where a refusal is not judged (DESIGN section 3)
                    self.stats['declaration_refusal_at_pure_solute_limit_unjudged'] += 1
                else:
                    self.V('C08', 'valid_step_refused', (k, kind),
                       f"{k} {c.get('conc')!r} is accepted by the direct operation on the current state but the recipe refuses the step "
                           f"when it is declared: {kind}: {out[1]}", self.first_excuse(('C08',)))
            else:
                self.V('C16', 'valid_call_rejected', key + (kind,), f"{k} should be accepted ({c}) but raised {kind}: {out[1]}")
                if k in STEP_CALLS and kind != 'RuntimeError' and all(n in lc.declared for n in self.call_names(c)[0]):
                    # the direct operation accepts this very step on the current state (the eager dry run above succeeded)
                    self.V('C08', 'valid_step_refused', (k, kind),
                           f"{k} is accepted by the direct operation on the current state but the recipe refuses the step when it is "
                           f"declared: {kind}: {out[1]}", self.first_excuse(('C08',)))
        elif pred == 'reject' and kind == 'ok':
            self.V('C16', 'invalid_call_accepted', key + (why,), f"{k} should be rejected ({why}) but was accepted")
        elif pred == 'RuntimeError' and kind != 'RuntimeError':
            if kind == 'ok':
                self.V('C16', 'accepted_after_bake', key, f"{k} accepted after a successful bake")
            elif k in ('dilute', 'create_solution', 'create_solution_from') and self.try_eager(c)[0] != 'ok':
                self.stats['post_bake_invalid_arguments_unjudged'] += 1     # argument validation may legitimately come first
            elif not soft:
                self.V('C16', 'wrong_exception_after_bake', key + (kind,), f"{k} after bake raised {kind} instead of RuntimeError: {out[1]}")
        # ---------------- mirror the effect
        accepted = kind == 'ok'
        if k == 'uses':
            if accepted:
                for n, o in zip(c['objs'], objs):
                    self.declare(n, o)
            elif pred == 'reject' and not lc.locked:
                # objects before the duplicate stay declared (mirrored, not judged)
                for n, o in zip(c['objs'], objs):
                    if n in R.results and n not in lc.declared:
                        self.declare(n, o)
        elif k in STEP_CALLS:
            grew = len(R.steps) - n_steps_before
            if accepted and grew != 1 and not lc.locked:
                self.V('C16', 'step_count', key, f"accepted {k} changed len(steps) by {grew}")
            if not accepted and grew != 0:
                self.V('C16', 'step_count', key, f"rejected {k} changed len(steps) by {grew}")
            if accepted and lc.locked:
                pass        # already reported; the post-bake panel check will show whether anything changed
            elif accepted:
                need, declares, uses = self.call_names(c)
                if declares is not None:
                    # the object returned by create_* is the user's handle; before bake it must be empty
                    h = out[1]
                    self.handles[declares] = h
                    self.handle_fps[declares] = fingerprint(rep, h)
                    self.handle_views[declares] = self.view(h)
                    if not isinstance(h, rep.Container):
                        self.V('C08', 'create_returns', key, f"{k} returned {type(h).__name__}")
                    elif h.contents or h.volume != 0:
                        self.V('C08', 'effect_before_bake', key, f"{k} returned a non-empty container before bake")
                    lc.declared.append(declares)
                    self.eager.setdefault(declares, None)
                if pred == 'unspecified':
                    lc.late_refusal = True
                lc.step_uses.append(set(uses))
                self.add_step(c, uses)
        elif k == 'start_stage' and accepted and not lc.locked:
            lc.open_stage = c['name']
            lc.stage_start = lc.n_steps
        elif k == 'end_stage' and accepted and not lc.locked:
            if lc.open_stage is None:
                # accepted although nothing is open (only 'all' can get here): mirrored for the ledger, judged above
                lc.stages[c['name']] = (lc.stage_start, lc.n_steps)
            else:
                lc.stages[c['name']] = (lc.stage_start, lc.n_steps)
                lc.stage_names.add(c['name'])
                lc.open_stage = None
        # ---------------- invariants after every call
        self.check_handles(k)
        if self.baked is None and not self.bake_failed:
            self.check_no_effect_before_bake(k)
        if self.baked is not None:
            self.check_frozen(k)
        self.log.append(rec)
        return rec

    def declare(self, name, obj):
        self.lc.declared.append(name)
        self.handles[name] = obj
        self.handle_fps[name] = fingerprint(self.rep, obj)
        self.handle_views[name] = self.view(obj)
        self.eager[name] = obj
        # an object declared in the middle of a program held its declaration-time contents during all earlier steps
        m = None
        for sn in self.snap:
            if name not in sn:
                if m is None:
                    m = self.model_of(obj)
                sn[name] = m

    def build_recipe_call(self, c):
        rep, W, R = self.rep, self.W, self.recipe
        k = c['c']
        if k == 'create_container':
            kwargs = {}
            if c.get('cap') is not None:
                kwargs['max_volume'] = c['cap']
            if c.get('contents'):
                kwargs['initial_contents'] = self.keep_list([(W.rsubs[s], q) for s, q in c['contents']], 'initial_contents')
            return lambda: R.create_container(c['name'], **kwargs)
        if k == 'create_solution':
            solutes = [W.rsubs[n] for n in c['solutes']]
            sol_arg = solutes[0] if len(solutes) == 1 and not c.get('aslist') else self.keep_list(solutes, 'solute')
            solv = c['solvent']
            if isinstance(solv, dict):
                solvent = self.handle_ref([solv['obj']])
                if solvent is None:
                    return None
            else:
                solvent = W.rsubs[solv]
            kw = {kk: (self.keep_list(list(v), kk) if isinstance(v, list) else v) for kk, v in c['kwargs'].items()}
            return lambda: R.create_solution(sol_arg, solvent, c['name'], **kw)
        if k == 'create_solution_from':
            src = self.handle_ref([c['src']])
            if src is None:
                return None
            return lambda: R.create_solution_from(src, W.rsubs[c['solute']], c['conc'], W.rsubs[c['solvent']], c['q'], c['name'])
        if k == 'transfer':
            s, d = self.handle_ref(c['src']), self.handle_ref(c['dst'])
            if s is None or d is None:
                return None
            return lambda: R.transfer(s, d, c['q'])
        if k == 'remove':
            t = self.handle_ref(c['tgt'])
            if t is None:
                return None
            what = c['what']
            real_what = W.rsubs[what] if what in W.rsubs else M.KIND_CODE[what]
            return lambda: R.remove(t, real_what)
        if k == 'dilute':
            t = self.handle_ref(c['tgt'])
            if t is None:
                return None
            kw = {'new_name': c['name']} if c.get('name') else {}
            return lambda: R.dilute(t, W.rsubs[c['solute']], c['conc'], W.rsubs[c['solvent']], **kw)
        if k == 'fill_to':
            t = self.handle_ref(c['tgt'])
            if t is None:
                return None
            return lambda: R.fill_to(t, W.rsubs[c['solvent']], c['q'])
        raise HarnessError(k)

    # ------------------------------------------------------------------ eager reference + ledger for an accepted step
    def add_step(self, c, uses):
        W = self.W
        k = c['c']
        if not self.snap:
            self.snap.append(self.snapshot_models())
        before = self.snap[-1]
        step = {'call': c, 'uses': set(uses), 'kind': k, 'trash': {}, 'to': None, 'frm': None, 'cells': None,
                'eager_ok': self.eager_ok}
        if k in ('create_container', 'create_solution', 'create_solution_from'):
            step['to'] = c['name']
            if k == 'create_solution_from':
                step['frm'] = c['src']
            if k == 'create_solution' and isinstance(c['solvent'], dict):
                step['solvent_obj'] = c['solvent']['obj']
        elif k == 'transfer':
            step['to'], step['frm'] = c['dst'][0], c['src'][0]
        else:
            step['to'] = c['tgt'][0]
        if self.known is not None:
            kf = self.known.match_recipe_step(self, c)
            if kf:
                self.excused.add(kf['id'])
                step['known'] = kf['id']
        if k == 'dilute' and c.get('name'):
            self.renamed.add(c['tgt'][0])
            self.renamed.add(c['name'])     # ... and whatever else goes by the name it takes (tracking matches by name)
        if self.eager_ok:
            try:
                cur = {n: o for n, o in self.eager.items() if o is not None}
                self.note_conditioning(c, cur)
                upd = self.apply_eager(c, cur)
                if k == 'remove':
                    step['trash'] = self.discarded(c, cur, upd)
                if k == 'fill_to' and self.fill_at_capacity(c, upd):
                    # bake applies a fill_to step twice; exactly at capacity the second application sits in the
                    # rounding band of the capacity test (DESIGN section 3: exact-boundary requests are not judged
                    # on states that carry rounding) - a refusal by bake is then not judged
                    self.near_capacity_fill = True
                    self.stats['recipe_fill_at_capacity'] += 1
                self.eager.update(upd)
                self.n_ok_state += 1
            except (KeyboardInterrupt, MemoryError):
                raise
            except Exception as e:  # noqa
                self.eager_ok = False
                self.eager_fail_step = len(self.steps)
                step['eager_exc'] = type(e).__name__
                # was the refusal decided beyond rounding?  (a round dose into a round well sits exactly on the capacity
                # boundary; bake, whose state may differ by rounding residue after its doubled fill_to, may decide otherwise)
                plan = self.model_plan(c, cur) if k in ('transfer', 'fill_to') else None
                step['eager_refusal_sure'] = plan is None or plan.get('status') == 'must_refuse'
        self.steps.append(step)
        self.snap.append(self.snapshot_models())

    def note_conditioning(self, c, cur):
        """Before a step is applied eagerly: how sensitive is it to rounding-level differences of its source?
        (bake applies every fill_to twice, so after a fill_to its state may differ from the eager one by one rounding step
        per substance; a later ratio q/T turns that into a relative error slack/T, an exact-boundary request into a flip.)"""
        W = self.W
        k = c['c']
        if k == 'fill_to':
            # a fill to (nearly) the level the vessel already has is a request on a feasibility boundary: a target below the
            # current total is refused, and how the current total compares with it is known only to the vessel's rounding
            # (a top-up to exactly the declared level); min_margin_rel tells the cross-configuration comparison (C18)
            try:
                value, unit = M.parse_quantity(c['q'])
                o = cur.get(c['tgt'][0])
                m = self.model_of(o) if o is not None else None
                if m is not None and value > 0:
                    vessels = [m] if isinstance(m, M.MVessel) else [m.well(cell) for cell in m.all_cells()]
                    for v in vessels:
                        T = W.model.total(v, unit)
                        self.min_margin_rel = min(self.min_margin_rel, abs(T - value) / max(T, value))
            except (M.ModelError, KeyError, ValueError, ZeroDivisionError):
                pass
            if self.had_fill or self.noise_rel > 0 or self.abs_noise:
                # a fill adds (target - current total): whatever deviation the vessel's *total* carries from upstream (a doubled
                # fill_to earlier, ratios taken from its result) lands, one to one, in the amount of filler added - however
                # small that amount is next to the total
                try:
                    value, unit = M.parse_quantity(c['q'])
                    ksolv = W.msubs[c['solvent']].per_amount(unit)
                    o = cur.get(c['tgt'][0])
                    m = self.model_of(o) if o is not None else None
                    if m is not None and ksolv > 0:
                        vessels = [m] if isinstance(m, M.MVessel) else [m.well(cell) for cell in m.all_cells()]
                        worst = F(0)
                        for v in vessels:
                            tot = sum((self.noise_amt(n) * W.msubs[n].per_amount(unit) for n, a in v.contents.items() if a > 0), F(0))
                            worst = max(worst, tot)
                        self.abs_noise[c['solvent']] = self.abs_noise.get(c['solvent'], F(0)) + 2 * worst / ksolv
                except (M.ModelError, KeyError, ValueError, ZeroDivisionError):
                    pass
            self.had_fill = True
            return
        if k == 'dilute' and (self.had_fill or self.noise_rel > 0):
            # dilute adds x = (solute/c - total)/k of solvent: a difference of two nearly equal numbers when the target is
            # close to the current concentration.  A relative deviation eps of the vessel's contents (left by a doubled
            # fill_to upstream) moves x by about eps * (solute/c + total)/k, whatever x itself is.
            o = cur.get(c['tgt'][0])
            if o is None or not isinstance(o, self.rep.Container):
                return
            m = self.model_of(o)
            try:
                cv, num, den = M.parse_concentration(c['conc'], W.model.wv)
                top = W.msubs[c['solute']].per_amount(num) * m.contents.get(c['solute'], F(0))
                bottom = W.model.total(m, den)
                kk = W.msubs[c['solvent']].per_amount(den)
            except Exception:
                return
            if cv <= 0 or kk <= 0:
                return
            eps = self.noise_rel
            for n, a in m.contents.items():
                if a > 0:
                    eps = max(eps, min(F(1), (self.fill_slack(m, n) + self.abs_noise.get(n, F(0))) / a))
            self.abs_noise[c['solvent']] = self.abs_noise.get(c['solvent'], F(0)) + 2 * eps * (top / cv + bottom) / kk
            return
        if k == 'transfer':
            src, q = c['src'], c['q']
        elif k == 'create_solution_from':
            src, q = [c['src']], c['q']
        else:
            return
        o = cur.get(src[0])
        if o is None:
            return
        try:
            value, unit = M.parse_quantity(q)
        except Exception:
            return
        if k == 'transfer':
            # both sides: distance of the request from the source's content and from every destination's capacity
            plan = self.model_plan(c, cur)
            if plan is not None:
                if plan.get('status') == 'dont_care':
                    self.near_boundary_transfer = True
                if plan.get('margin_rel') is not None:
                    self.min_margin_rel = min(self.min_margin_rel, F(plan['margin_rel']))
                # a broadcast that takes (nearly) everything: what is left in the source is a difference of large numbers, and
                # whatever is done with that remainder later (a dilute, a fill) sees the source's noise relative to *it*
                ms_after = plan.get('ms')
                if self.had_fill and isinstance(ms_after, M.MVessel):
                    m_before = self.model_of(o)
                    if isinstance(m_before, M.MVessel):
                        T0 = W.model.total(m_before, unit)
                        T1 = W.model.total(ms_after, unit)
                        if T1 > 0 and T1 < T0 / 100:
                            slack0 = 40 * W.slack_total(m_before, unit) + F(4, 10 ** 15) * T0 * (plan.get('n_pairs', 1) + 1)
                            self.noise_rel += min(slack0 / T1, F(1))
        m = self.model_of(o)
        if isinstance(m, M.MPlate):
            cells = self.cells_of(src, cur) or []
            vessels = [m.well(cell) for cell in cells]
        else:
            vessels = [m]
        worst = F(0)
        for v in vessels:
            T = W.model.total(v, unit)
            if T <= 0:
                continue
            slack = 40 * W.slack_total(v, unit) + (40 * W.q_vol() * (len(v.contents) + 1) if unit == 'L' else 0)
            worst = max(worst, slack / T)
            if abs(T - value) <= T * F(1, 10 ** 8) + 4 * slack:
                self.near_boundary_transfer = True
            self.min_margin_rel = min(self.min_margin_rel, abs(T - value) / max(T, abs(value)))
        if self.had_fill:
            self.noise_rel += min(worst, F(1))

    def operand_of(self, ref, cur):
        from .bench import Operand
        o = cur.get(ref[0])
        if o is None:
            return None
        if isinstance(o, self.rep.Container):
            return Operand(ref[0], None, 'container', o, o)
        sel = ref[1] if len(ref) > 1 and ref[1] is not None else {'k': 'all'}
        cells, shape = M.select(sel, (o.n_rows, o.n_columns))
        return Operand(ref[0], None, 'plate', o, o, sel, cells, shape, whole=sel.get('k') == 'all')

    def model_plan(self, c, cur):
        """The exact model's verdict on a transfer / fill_to step on the current eager state:
        {'status': must_accept | dont_care | must_refuse, 'margin_rel': ...} or None if the model does not predict it."""
        W, b = self.W, self.bench
        try:
            if c['c'] == 'transfer':
                s, d = self.operand_of(c['src'], cur), self.operand_of(c['dst'], cur)
                if s is None or d is None:
                    return None
                plan = b.model_transfer(s, d, c['q'], b.pairing(s, d), s.base is d.base)
                return plan if plan.get('status') in ('must_accept', 'dont_care', 'must_refuse') else None
            if c['c'] == 'fill_to':
                t = self.operand_of(c['tgt'], cur)
                if t is None:
                    return None
                value, unit = M.parse_quantity(c['q'])
                m = self.model_of(t.base)
                status = 'must_accept'
                for cell in ([None] if t.kind == 'container' else t.cells):
                    pre = m if cell is None else m.well(cell)
                    try:
                        nv, info = W.model.fill_to(pre, c['solvent'], c['q'])
                    except M.Refuse as r:
                        band = b.band_fill(pre, unit, c['solvent'])
                        if r.reason == 'exceeds capacity':
                            band = b.band_cap(pre) + b.band_fill(pre, 'L', c['solvent'])
                        if r.margin is not None and r.reason in ('below current quantity', 'exceeds capacity') and -r.margin < 4 * band:
                            status = 'dont_care'
                            continue
                        if r.reason == 'solvent cannot be measured in that unit':
                            status = 'dont_care'
                            continue
                        return {'status': 'must_refuse'}
                    if info['margin_low'] < 4 * b.band_fill(pre, unit, c['solvent']) or \
                            (info['margin_cap'] is not None and info['margin_cap'] < 4 * (b.band_cap(nv) + b.band_fill(pre, 'L', c['solvent']))):
                        status = 'dont_care'
                return {'status': status}
        except (M.ModelError, M.Refuse, KeyError, ValueError, ZeroDivisionError):
            return None
        return None

    def update_peaks(self, models):
        for mo in models.values():
            vs = [mo] if isinstance(mo, M.MVessel) else [mo.well(cell) for cell in mo.all_cells()]
            for v in vs:
                for n, a in v.contents.items():
                    if a > self.peak.get(n, F(0)):
                        self.peak[n] = a

    def fill_at_capacity(self, c, upd):
        W = self.W
        m = self.model_of(upd[c['tgt'][0]])
        vessels = [m] if isinstance(m, M.MVessel) else [m.well(cell) for cell in m.all_cells()]
        for v in vessels:
            if v.cap is not None and v.cap - W.model.volume(v) < 4 * self.bench.band_cap(v):
                return True
        return False

    def snapshot_models(self):
        sn = {n: self.model_of(o) for n, o in self.eager.items() if o is not None}
        self.update_peaks(sn)
        return sn

    def noise_amt(self, n):
        """Absolute allowance for amounts of substance n downstream of a doubly applied fill_to."""
        return self.noise_rel * self.peak.get(n, F(0)) + self.peak.get(n, F(0)) * F(1, 10 ** 13) + self.abs_noise.get(n, F(0))

    def discarded(self, c, cur, upd):
        """Amounts removed by a remove step, from the eager reference (model units), summed over wells."""
        name = c['tgt'][0]
        before, after = self.model_of(cur[name]), self.model_of(upd[name])
        out = {}

        def acc(bv, av):
            for n, a in bv.contents.items():
                d = a - av.contents.get(n, F(0))
                if n not in av.contents:
                    out[n] = out.get(n, F(0)) + a
                elif d != 0:
                    out[n] = out.get(n, F(0)) + d
        if isinstance(before, M.MPlate):
            for cell in before.all_cells():
                acc(before.well(cell), after.well(cell))
        else:
            acc(before, after)
        return out

    # ------------------------------------------------------------------ invariants
    def keep_list(self, seq, label):
        if len(self.arg_lists) < 60:
            self.arg_lists.append((f"{label} of call {self.idx}", seq, list(seq)))
        return seq

    def view(self, obj):
        """What the object says about itself through its observers - "observably unchanged" covers these as well as the
        attributes.  The answers are copied into plain tuples: memoised return values may be shared objects."""
        try:
            subs = tuple(sorted((s.name, s._type, s.mol_weight, s.density) for s in obj.get_substances()))
        except Exception as e:  # noqa
            subs = ('raised', type(e).__name__)
        try:
            vol = repr(obj.get_volume('L')) if isinstance(obj, self.rep.Container) else repr(obj.get_volumes().tolist())
        except Exception as e:  # noqa
            vol = ('raised', type(e).__name__)
        return (subs, vol)

    def check_handles(self, k):
        """C04: every object handed to (or received from) the recipe is unchanged."""
        rep = self.rep
        for n, h in self.handles.items():
            now = fingerprint(rep, h)
            if now != self.handle_fps[n]:
                self.V('C04', 'recipe_mutated_argument', ('recipe.' + k, 'handle'), f"{n} changed: {fp_diff(self.handle_fps[n], now)}")
                self.handle_fps[n] = now
                self.handle_views[n] = self.view(h)
            elif k == 'bake' or self.idx % 4 == 0:
                v = self.view(h)
                if v != self.handle_views[n]:
                    self.V('C04', 'recipe_mutated_argument', ('recipe.' + k, 'handle-view'),
                           f"{n}: attributes unchanged, but its observers now answer {v!r}, when handed over {self.handle_views[n]!r}")
                    self.handle_views[n] = v
        for j, (label, obj, fp) in enumerate(self.held):
            now = fingerprint(rep, obj)
            if now != fp:
                self.V('C04', 'recipe_mutated_argument', ('recipe.' + k, 'held-slice'), f"{label} changed: {fp_diff(fp, now)}")
                self.held[j] = (label, obj, now)
        for j, (label, seq, snap) in enumerate(self.arg_lists):
            if len(seq) != len(snap) or any(a is not b for a, b in zip(seq, snap)):
                self.V('C04', 'argument_list_mutated', ('recipe.' + k, label.split(' of ')[0]),
                       f"the list passed as {label} held {len(snap)} item(s) when it was handed over and holds {len(seq)} now: {seq!r}")
                self.arg_lists[j] = (label, seq, list(seq))
        bad = self.W.check_immutability()
        for label, diff in bad:
            self.V('C04', 'recipe_mutated_argument', ('recipe.' + k, 'live-object'), f"{label} changed: {diff}")
        if bad:
            self.bench.rebaseline()

    def check_no_effect_before_bake(self, k):
        """C08 (i): steps have no effect before bake - what the recipe holds for a declared object equals the declaration."""
        rep = self.rep
        for n, o in self.recipe.results.items():
            h = self.handles.get(n)
            if h is None:
                continue
            a, b = fingerprint(rep, o), self.handle_fps[n]
            if a != b:
                self.V('C08', 'effect_before_bake', ('recipe.' + k,), f"{n} already differs from its declaration before bake: {fp_diff(b, a)}")
                return

    # ------------------------------------------------------------------ bake
    def do_bake(self, c):
        lc, R, rep = self.lc, self.recipe, self.rep
        rec = {'c': 'bake'}
        second = lc.failed_bake
        pred = 'accept'
        why = ''
        if lc.locked:
            pred, why = 'raise', 'already baked'
        elif not self.eager_ok:
            pred, why = 'raise', f'step {self.eager_fail_step} infeasible'
            if not self.steps[self.eager_fail_step].get('eager_refusal_sure', True):
                pred, why = 'unspecified', f'step {self.eager_fail_step} refused within the rounding band of a feasibility boundary'
                self.stats['bake_after_boundary_refusal_unjudged'] += 1
        elif lc.unused():
            pred, why = 'raise', f'declared but unused: {lc.unused()}'
        elif lc.late_refusal:
            pred, why = 'unspecified', 'undeclared operand of a create_* step'
        known = None
        if second and self.known is not None:
            known = self.known.match_bake_after_failed_bake(self)
        if second and known is None:
            pred = 'unspecified'
        if pred == 'accept' and (self.near_capacity_fill or (self.near_boundary_transfer and self.had_fill)):
            pred = 'unspecified'
        if self.excused and pred == 'accept':
            pass
        out = self.call(lambda: R.bake())
        kind = out[0]
        rec['out'], rec['pred'] = kind, pred
        shadow_due = self.shadow is not None and not lc.locked
        self.sig.add(('bake', pred, kind if kind in ('ok', 'ValueError', 'RuntimeError') else 'other', second, len(self.steps)))
        key = ('bake',)
        kid = known['id'] if known else None
        if pred == 'accept' and kind != 'ok':
            ex = self.first_excuse(('C08',))
            self.V('C08', 'bake_refused', key + (kind,), f"every step is feasible for the eager reference but bake raised {kind}: {out[1]}", ex or kid)
        elif pred == 'raise' and kind == 'ok':
            if why == 'already baked':
                self.V('C16', 'second_bake_accepted', key, "second bake accepted")
            elif why.startswith('declared but unused'):
                # (not excused by the bake-retry finding: that one is about steps applied twice, not about what counts as used)
                self.V('C16', 'bake_with_unused_object', key, f"bake accepted although {why}", None)
            else:
                self.V('C03', 'infeasible_step_baked', key, f"bake accepted although {why} ({self.steps[self.eager_fail_step]['call']})",
                       self.first_excuse(('C03', 'C08')) or kid)
        elif pred == 'raise' and why == 'already baked' and kind != 'RuntimeError':
            self.V('C16', 'second_bake_exception', key + (kind,), f"second bake raised {kind}")
        elif pred == 'raise' and why.startswith('step') and kind not in ('ValueError',):
            exc = self.steps[self.eager_fail_step].get('eager_exc')
            if exc == 'ValueError':
                self.V('C03', 'bake_wrong_exception', key + (kind,), f"infeasible step made bake raise {kind} instead of ValueError: {out[1]}")
        if kind == 'ok' and not lc.locked:
            if lc.open_stage is not None:
                lc.stages[lc.open_stage] = (lc.stage_start, lc.n_steps)
                lc.stage_names.add(lc.open_stage)
                lc.open_stage = None
            lc.locked = True
            self.baked = out[1]
            if not isinstance(self.baked, dict):
                self.V('C08', 'bake_returns', key, f"bake returned {type(self.baked).__name__}")
                self.baked = None
            else:
                self.stats['probe:baked_ok'] += 1
                self.check_stages_registered()
                if self.eager_ok:
                    self.check_bake_result(known)
                    from . import tracking
                    tracking.check_tracking(self)
                else:
                    # bake accepted a program in which the eager reference stopped (reported above, or a boundary case):
                    # there is no reference state to compare with
                    self.stats['bake_without_reference_uncompared'] += 1
                self.panel_before = self.frozen_panel()
        elif kind != 'ok' and not lc.locked:
            if lc.open_stage is not None:
                # bake closes an open stage before executing steps, also when it fails afterwards
                lc.stages[lc.open_stage] = (lc.stage_start, lc.n_steps)
                lc.stage_names.add(lc.open_stage)
                lc.open_stage = None
            lc.failed_bake = True
            self.bake_failed = True
            self.stats['probe:bake_refused'] += 1
            if self.recipe.locked:
                self.V('C16', 'locked_after_failed_bake', key, "recipe is locked although bake raised")
        if shadow_due and self.shadow is not None:
            self.shadow_call({'c': 'bake'}, kind)
        self.check_handles('bake')
        self.check_held_reuse()
        if self.baked is not None and lc.locked and kind != 'ok':
            self.check_frozen('bake')
        self.log.append(rec)
        return rec

    def check_held_reuse(self):
        """C07 / C17 outside the recipe, on an object that went through it: the slice object the user handed to a recipe call
        still denotes those wells of the plate it was taken from, so using it directly gives the same result as writing
        plate[...] afresh."""
        rep = self.rep
        for j in list(range(len(self.held)))[:2] + list(range(len(self.held)))[-1:]:
            label, sl, _ = self.held[j]
            name, sel, h = self.held_info[j]
            if h is None or not isinstance(h, rep.Plate):
                continue
            what = M.KIND_CODE[M.LIQUID]
            a = self.call(lambda: sl.remove(what))
            b = self.call(lambda: slice_of(h, sel).remove(what))
            self.stats['probe:held_slice_reused_after_recipe'] += 1
            if a[0] != b[0]:
                for prop in ('C07', 'C17'):
                    self.V(prop, 'slice_reused_after_recipe', ('remove', 'outcome'), f"{label}: remove(liquids) through the kept slice object: {a[0]}, through a fresh slice of the same plate: {b[0]}")
            elif a[0] == 'ok':
                fa, fb = fingerprint(rep, a[1]), fingerprint(rep, b[1])
                if fa != fb:
                    for prop in ('C07', 'C17'):
                        self.V(prop, 'slice_reused_after_recipe', ('remove', 'result'),
                               f"{label}: remove(liquids) through the kept slice object differs from the same call on a fresh slice of the same plate: {fp_diff(fb, fa)}")

    def check_stages_registered(self):
        """C16: every stage the recipe accepted (incl. one closed by bake, incl. empty ones) is a timeframe afterwards."""
        R = self.recipe
        probe = None
        for n in self.lc.declared:
            probe = self.handles.get(n)
            if probe is not None:
                break
        if probe is None:
            return
        for name in sorted(self.lc.stage_names - {'all'}):
            out = self.call(lambda: R.get_container_flows(probe, timeframe=name))
            if out[0] != 'ok':
                self.V('C16', 'stage_not_registered', ('bake',), f"stage {name!r} was accepted but is not a timeframe after bake: {out[0]}: {out[1]}")
            else:
                self.stats['probe:stage_timeframe_checked'] += 1

    def scoped_excuse(self, props, names):
        """Like first_excuse, but the renaming-dilute finding excuses only answers about the renamed container itself: what
        the recipe says about every other object is judged."""
        if self.known is None:
            return None
        for kid in sorted(self.excused):
            f = self.known.findings.get(kid)
            if f and (f['property'] in props or any(p in f.get('also', []) for p in props)):
                if f.get('trigger') == 'recipe_dilute_rename' and not (set(names) & self.renamed):
                    continue
                return kid
        return None

    def first_excuse(self, props):
        if self.known is None:
            return None
        for kid in sorted(self.excused):
            f = self.known.findings.get(kid)
            if f and (f['property'] in props or any(p in f.get('also', []) for p in props)):
                return kid
        return None

    # ------------------------------------------------------------------ C08 (ii): bake result == eager fold
    def check_bake_result(self, known_bake):
        rep, W = self.rep, self.W
        res = self.baked
        kid = known_bake['id'] if known_bake else self.first_excuse(('C08',))
        exp_names = list(self.lc.declared)
        got = list(res.keys())
        if set(got) != set(exp_names):
            ex = kid or self.first_excuse(('C16',))
            self.V('C08', 'result_keys', ('bake',), f"bake returned keys {sorted(got)}, declared/created names are {sorted(exp_names)}", ex)
        if got != [n for n in exp_names if n in res] and set(got) == set(exp_names):
            self.stats['bake_key_order_differs'] += 1
        for n in exp_names:
            if n not in res or self.eager.get(n) is None:
                continue
            a, e = res[n], self.eager[n]
            if type(a) is not type(e):
                self.V('C08', 'result_type', ('bake',), f"{n}: bake returned {type(a).__name__}, eager reference is {type(e).__name__}", kid)
                continue
            diff = self.tolerant_diff(a, e)
            if diff:
                kind = self.last_step_kind_touching(n)
                self.V('C08', 'bake_differs', ('bake', kind),
                       f"{n}: bake result differs from the eager reference: {diff}", kid)
                if all(s['kind'] == 'transfer' for s in self.steps):
                    # C02 for transfers made as recipe steps: what each step moves is what the same transfer moves directly
                    self.V('C02', 'aliquot_recipe', ('bake', 'transfers'),
                           f"{n}: a program of transfers only bakes to something else than the same transfers made directly: {diff}",
                           kid or self.first_excuse(('C02',)))
                if isinstance(a, rep.Plate):
                    # C07: a plate operation as a recipe step must give each well what the direct operation gives
                    self.V('C07', 'recipe_step_differs', ('bake', kind),
                           f"{n}: as recipe steps the plate operations gave a different plate than the direct operations: {diff}",
                           kid or self.first_excuse(('C07',)))
        self.stats['probe:bake_compared'] += 1
        self.check_recipe_conservation(kid)

    def check_recipe_conservation(self, kid):
        """C01 for transfers made as recipe steps: a program of transfers only neither creates nor loses anything over the
        declared objects taken together, and a well that no step addresses (as source or destination) keeps its contents."""
        rep, W = self.rep, self.W
        if not self.steps or any(s['kind'] != 'transfer' for s in self.steps) or not self.eager_ok:
            return
        names = [n for n in self.lc.declared if n in self.baked and self.handles.get(n) is not None]
        if set(names) != set(self.lc.declared):
            return
        before = self.bench.totals([self.handles[n] for n in names])
        after = self.bench.totals([self.baked[n] for n in names])
        n_pairs = 0
        touched = {}
        for s in self.steps:
            c = s['call']
            for ref in (c['src'], c['dst']):
                o = self.handles.get(ref[0])
                if isinstance(o, rep.Plate):
                    cells = M.select(ref[1] if len(ref) > 1 and ref[1] is not None else {'k': 'all'}, (o.n_rows, o.n_columns))[0]
                    touched.setdefault(ref[0], set()).update(cells)
                    n_pairs += len(cells)
                else:
                    n_pairs += 1
        ex = kid or self.first_excuse(('C01',))
        for n in sorted(set(before) | set(after)):
            x, y = before.get(n, F(0)), after.get(n, F(0))
            tol = (n_pairs + 1) * 20 * W.units.q + max(x, y) * F(1, 10 ** 12)
            if abs(x - y) > tol:
                self.V('C01', 'conservation_recipe', ('bake', 'transfers'),
                       f"{n}: the declared objects held {float(x):.12g} in all before the recipe and hold {float(y):.12g} after it (storage units)", ex)
                break
        else:
            self.stats['probe:recipe_conservation_checked'] += 1
        for name, cells in touched.items():
            h, r = self.handles[name], self.baked[name]
            for rr in range(h.n_rows):
                for cc in range(h.n_columns):
                    if (rr, cc) not in cells and fp_container_contents(h.wells[rr, cc]) != fp_container_contents(r.wells[rr, cc]):
                        self.V('C01', 'bystander_well_changed', ('bake', 'transfers'),
                               f"{name}: well ({rr},{cc}) is neither source nor destination of any step but changed", ex)
                        return

    def last_step_kind_touching(self, name):
        for st in reversed(self.steps):
            if name in st['uses']:
                return st['kind']
        return '-'

    def tolerant_diff(self, a, e):
        """None if a and e are the same value up to float re-ordering noise; instructions excluded."""
        rep, W = self.rep, self.W
        if isinstance(a, rep.Container):
            return self._cdiff(a, e)
        if a.name != e.name:
            return f"name {a.name!r} != {e.name!r}"
        if a.wells.shape != e.wells.shape or a.row_names != e.row_names or a.column_names != e.column_names:
            return "plate geometry differs"
        if a.max_volume_per_well != e.max_volume_per_well:
            return "well capacity differs"
        for r in range(a.n_rows):
            for c in range(a.n_columns):
                d = self._cdiff(a.wells[r, c], e.wells[r, c])
                if d:
                    return f"well ({r},{c}): {d}"
        return None

    def fill_slack(self, me, n):
        W = self.W
        ms = W.msubs[n]
        worst = F(0)
        for unit in ('L', 'g', 'mol'):
            k = ms.per_amount(unit)
            if k > 0:
                worst = max(worst, 2 * W.slack_total(me, unit) / k)
                if self.had_fill:
                    # the second application of a fill_to compares a float sum with the target: what it may add is float
                    # noise of the vessel's *total* in the fill unit, expressed in solvent amount (large next to a minor
                    # component's own rounding step when the vessel is big)
                    worst = max(worst, 2 * W.slack_total(me, unit) / k + F(4, 10 ** 15) * W.model.total(me, unit) / k)
        return worst

    def _cdiff(self, a, e):
        W = self.W
        if a.name != e.name:
            return f"name {a.name!r} != {e.name!r}"
        if a.max_volume != e.max_volume:
            return f"capacity {a.max_volume!r} != {e.max_volume!r}"
        ma, me = W.alpha_container(a), W.alpha_container(e)
        for n in dict.fromkeys(list(ma.contents) + list(me.contents)):
            x, y = ma.contents.get(n), me.contents.get(n)
            if x is None or y is None:
                if (x or y or 0) != 0 or True:
                    return f"{n} present in one only ({float(x) if x is not None else None} vs {float(y) if y is not None else None})"
            # bake applies fill_to twice: the second application may add up to one rounding step of every substance,
            # expressed in solvent amount
            if abs(x - y) > 4 * W.q_amt(n) + abs(y) * F(1, 10 ** 12) + self.fill_slack(me, n) + self.noise_amt(n):
                return f"{n}: {float(x):.12g} != {float(y):.12g}"
        va, ve = W.stored_volume(a), W.stored_volume(e)
        if abs(va - ve) > W.tol_volume(me) + sum((self.noise_amt(n) * W.msubs[n].per_amount('L') for n in me.contents), F(0)):
            return f"volume {float(va):.12g} != {float(ve):.12g}"
        return None

    # ------------------------------------------------------------------ C16: after a successful bake nothing changes any more
    def frozen_panel(self):
        rep = self.rep
        R = self.recipe
        panel = {'n_steps': len(R.steps), 'locked': R.locked,
                 'results': tuple((k, fingerprint(rep, v)) for k, v in R.results.items()),
                 'baked': tuple((k, fingerprint(rep, v)) for k, v in (self.baked or {}).items()),
                 'stages': tuple(sorted((k, (v.start, v.stop)) for k, v in R.stages.items()))}
        from . import tracking
        panel['tracking'] = tracking.fixed_panel(self)
        return panel

    def check_frozen(self, k):
        now = self.frozen_panel()
        if self.panel_before is None:
            self.panel_before = now
            return
        for field in ('n_steps', 'locked', 'results', 'baked', 'stages', 'tracking'):
            if now[field] != self.panel_before[field]:
                d = fp_diff(self.panel_before[field], now[field]) if isinstance(now[field], tuple) else f"{self.panel_before[field]!r} -> {now[field]!r}"
                self.V('C16', 'changed_after_bake', ('recipe.' + k, field), f"after {k} (post-bake) {field} changed: {d}")
                self.panel_before = now
                return
        self.stats['probe:post_bake_call_checked'] += 1
