"""C19 oracle (instructions vs actual deltas) - installed as a hook on the bench."""


def install(bench):
    pass


def check_recipe_instructions(run):
    pass
