"""C19 oracle: every instruction line the library emits is parsed back to (amount, unit, substance / vessel) and
compared with the simulator's own record of what happened; the two rescaling helpers are monitored at their call
sites (value x prefix out must denote the same physical amount as value x prefix in).

Unparseable lines are counted as skipped, never as violations (wording may legitimately change)."""
from __future__ import annotations

import re
from fractions import Fraction as F

from . import model as M

NUM = r'(-?\d+(?:\.\d+)?(?:[eE][+-]?\d+)?)'
RE_TRANSFER = re.compile(r'^Transfer ' + NUM + r' (\S+) of (.+) to (.+)$')
RE_ITEM = re.compile(NUM + r' (\S+) of ([^,]+?)(?=,| to |\.$|$)')
RE_DILUTE = re.compile(r'^Dilute with ' + NUM + r' (\S+) of (.+)\.$')
RE_FILL = re.compile(r'^Fill with ' + NUM + r' (\S+) of (.+)\.$')
RE_FROM = re.compile(r'^Add ' + NUM + r' mL of (.+) to ' + NUM + r' mL of (.+)\.$')
RE_STEP_DILUTE = re.compile(r"^Dilute '(.+)' in '(.+)' to (.+) by adding " + NUM + r" (\S+) of '(.+)'\.$")
RE_STEP_FILL = re.compile(r"^Fill '(.+)' with '(.+)' up to (.+) by adding " + NUM + r" (\S+)\.$")
RE_STEP_FILL_PLATE = re.compile(r"^Fill '(.+)' with '(.+)' up to (.+) by adding: (.*)\.$")
RE_STEP_TRANSFER = re.compile(r"^Transfer (.+?) from\s+'(.+)' to '(.+)'\.$", re.S)

_monitor_log = []


def install_monitor(rep):
    """Wrap the two rescaling helpers of one replica (pass-through; records every call)."""
    U = rep.Unit
    if getattr(U, '_verif_wrapped', False):
        return
    g = U.get_human_readable_unit
    f = U.convert_from_storage_to_standard_format

    def g_wrap(value, unit):
        out = g(value, unit)
        _monitor_log.append(('human', value, unit, out))
        return out

    def f_wrap(what, quantity):
        out = f(what, quantity)
        _monitor_log.append(('standard', what, quantity, out))
        return out
    U.get_human_readable_unit = staticmethod(g_wrap)
    U.convert_from_storage_to_standard_format = staticmethod(f_wrap)
    U._verif_wrapped = True


def drain_monitor(b, key):
    """Check and clear the helper calls recorded since the last drain."""
    W = b.world
    u = W.units
    calls, _monitor_log[:] = list(_monitor_log), []
    for rec in calls:
        if rec[0] == 'human':
            _, value, unit, (ov, ounit) = rec
            try:
                mi, bi = M.split_unit(unit)
                mo, bo = M.split_unit(ounit)
            except M.ModelError:
                continue
            b.stats['obs:rescale_calls'] += 1
            vin = abs(F(value)) * mi
            vout = abs(F(ov)) * mo
            if bi != bo or abs(vin - vout) > abs(vin) * F(1, 10 ** 9) + F(1, 10 ** 30):
                b.V('C19', 'rescale', key + ('get_human_readable_unit', bi),
                    f"get_human_readable_unit({value!r}, {unit!r}) -> ({ov!r}, {ounit!r}): {float(vin):.6g} {bi} became {float(vout):.6g} {bo}")
        else:
            _, what, quantity, (ov, ounit) = rec
            b.stats['obs:rescale_calls'] += 1
            try:
                mo, bo = M.split_unit(ounit)
            except M.ModelError:
                continue
            if isinstance(what, b.rep.Substance):
                try:
                    ms = W.msubs[W.key_of(what)]
                except KeyError:
                    continue
                amt = F(quantity) * u.amt_mult(ms)
                exp = amt * ms.per_amount(bo)
            else:
                exp = F(quantity) * u.vol_mult
                if bo != 'L':
                    continue
            got = F(ov) * mo
            tol = abs(exp) * F(1, 10 ** 9) + mo * F(1, 10 ** u.p)
            if abs(got - exp) > tol:
                b.V('C19', 'rescale', key + ('convert_from_storage_to_standard_format', bo),
                    f"convert_from_storage_to_standard_format({getattr(what, 'name', what)!r}, {quantity!r}) -> ({ov!r}, {ounit!r}): denotes {float(got):.6g} {bo}, stored amount is {float(exp):.6g} {bo}")


def shown_ok(b, shown: str, unit: str, exact_base: F, slack_base: F = F(0)):
    """Is `shown unit` the exact value correct to the displayed precision?  -> (ok, base unit)"""
    u = b.world.units
    mult, base = M.split_unit(unit)
    d = u.precision(unit)
    # the library rounds intermediate values to p decimals in the *base* unit (e.g. litres) before rescaling
    tol = F(1, 2 * 10 ** d) * mult + slack_base + abs(exact_base) * F(1, 10 ** 9) + mult * F(1, 10 ** 9) + F(1, 10 ** u.p)
    return abs(F(shown) * mult - exact_base) <= tol, base


def new_lines(old: str, new: str):
    """Lines appended to an instruction text, or None if the old text is not a prefix of the new one."""
    if old is None:
        old = ''
    if not new.startswith(old):
        return None
    rest = new[len(old):]
    return [ln for ln in rest.split('\n') if ln.strip()]


def total_in(W, amounts: dict, base: str) -> F:
    return sum((a * W.msubs[n].per_amount(base) for n, a in amounts.items()), F(0))


# --------------------------------------------------------------------------- bench hook

def hook(b, ev, named, key, info):
    op = ev['op']
    W = b.world
    try:
        if op == 'new_container':
            check_constructor(b, ev, named[0][1], key)
        elif op == 'transfer' and 'transfer' in info:
            check_transfer(b, ev, info['transfer'], named, key)
        elif op == 'dilute' and 'dilute' in info:
            check_dilute(b, ev, info['dilute'], named[0][1], key)
        elif op == 'fill_to' and 'fill' in info:
            check_fill(b, ev, info['fill'], named[0][1], key)
        elif op == 'solution':
            check_solution(b, ev, named, key, info)
        elif op == 'solution_from':
            check_solution_from(b, ev, named, key)
    finally:
        drain_monitor(b, key[:1])


def check_items(b, text, contents_model: M.MVessel, key, clause, what):
    """'Add 1.0 g of NaCl, 99.0 mL of water to ...' items vs the contents of the new container."""
    W = b.world
    items = RE_ITEM.findall(text)
    if not items:
        b.stats['instr:skipped'] += 1
        return
    seen = set()
    for shown, unit, name in items:
        name = W.key_of_name(name.strip())      # the text carries the name only: twins cannot be told apart in it
        if name is None:
            b.stats['instr:skipped'] += 1
            continue
        try:
            mult, base = M.split_unit(unit)
        except M.ModelError:
            b.stats['instr:skipped'] += 1
            continue
        seen.add(name)
        amt = contents_model.contents.get(name, F(0))
        exact = amt * W.msubs[name].per_amount(base)
        ok, _ = shown_ok(b, shown, unit, exact, 20 * W.q_amt(name) * W.msubs[name].per_amount(base))
        b.stats['instr:checked'] += 1
        if not ok:
            b.V('C19', clause, key + (base, W.msubs[name].kind),
                f"{what}: instruction says '{shown} {unit} of {name}', contents hold {float(exact / mult):.9g} {unit}")
    for n, a in contents_model.contents.items():
        if a > 20 * W.q_amt(n) and n not in seen and len(items) > 0 and len(W.keys_of_name[W.real_name[n]]) == 1:
            b.V('C19', clause + '_missing', key, f"{what}: {n} ({float(a):.6g}) was added but is not named in '{text[:120]}'")


def check_constructor(b, ev, c, key):
    if not ev.get('contents'):
        return
    text = c.instructions
    if not text.startswith('Add '):
        b.stats['instr:skipped'] += 1
        return
    check_items(b, text.split(' to a ')[0] if ' to a ' in text else text, b.world.alpha_container(c), key, 'constructor_amount', c.name)


def dest_vessels(b, op, obj, cells):
    if op.kind == 'container':
        return [(None, obj)]
    return [(c, obj.wells[c]) for c in cells]


def check_transfer(b, ev, tinfo, named, key):
    s, d, plan, before_s, before_d = tinfo
    W = b.world
    if 'pairs' not in plan or plan.get('status') not in ('must_accept', 'dont_care'):
        return
    moved = plan.get('moved')
    if moved is None:
        return
    rd = named[-1][1]
    rs = named[0][1]
    # destination side: one new line per pair that ended in this vessel
    per_dest = {}
    for k, (cs, cd) in enumerate(plan['pairs']):
        per_dest.setdefault(cd, []).append((cs, moved[k]))
    for cd, pairs in per_dest.items():
        old = (d.base if cd is None else d.base.wells[cd]).instructions
        res = rd if cd is None else rd.wells[cd]
        lines = new_lines(old, res.instructions)
        if lines is None:
            b.V('C19', 'instructions_replaced', key + ('d',), f"{res.name}: earlier instructions are no longer a prefix of the new text")
            continue
        tl = [ln for ln in lines if ln.startswith('Transfer ')]
        if len(tl) != len(pairs):
            b.stats['instr:skipped'] += 1
            continue
        for ln, (cs, mv) in zip(tl, pairs):
            m = RE_TRANSFER.match(ln)
            if not m:
                b.stats['instr:skipped'] += 1
                continue
            shown, unit, sname, dname = m.groups()
            try:
                mult, base = M.split_unit(unit)
            except M.ModelError:
                b.stats['instr:skipped'] += 1
                continue
            exact = total_in(W, mv, base)
            slack = sum((20 * W.q_amt(n) * W.msubs[n].per_amount(base) for n in mv), F(0)) + abs(exact) * plan.get('relerr_max', F(0))
            ok, _ = shown_ok(b, shown, unit, exact, slack)
            b.stats['instr:checked'] += 1
            has_liquid = any(W.msubs[n].kind == M.LIQUID for n in mv)
            if not ok:
                b.V('C19', 'transfer_amount', key + (base, 'liquid' if has_liquid else 'no-liquid'),
                    f"{res.name}: instruction says '{ln}', actually moved {float(exact / mult):.9g} {unit}")
            src_name = (s.base if cs is None else s.base.wells[cs]).name
            if src_name not in sname or res.name not in dname:
                b.V('C19', 'transfer_names', key, f"instruction '{ln}' does not name source {src_name!r} / destination {res.name!r}")
    # source side: the earlier text must survive
    for cs in set(p[0] for p in plan['pairs']):
        old = (s.base if cs is None else s.base.wells[cs]).instructions
        res = rs if cs is None else rs.wells[cs]
        if new_lines(old, res.instructions) is None:
            b.V('C19', 'instructions_replaced', key + ('s',),
                f"{res.name}: the source's instructions were replaced: {res.instructions[-120:]!r}")
            break


def check_dilute(b, ev, dinfo, res, key):
    t, pre, info = dinfo
    W = b.world
    lines = new_lines(t.base.instructions, res.instructions)
    if lines is None:
        b.V('C19', 'instructions_replaced', key, f"{res.name}: earlier instructions are no longer a prefix of the new text")
        return
    post = W.alpha_container(res)
    solvent = ev['solvent']
    added = post.contents.get(solvent, F(0)) - pre.contents.get(solvent, F(0))
    dl = [ln for ln in lines if ln.startswith('Dilute with')]
    if not dl:
        if added > 100 * W.q_amt(solvent):
            b.stats['instr:skipped'] += 1
        return
    m = RE_DILUTE.match(dl[-1])
    if not m:
        b.stats['instr:skipped'] += 1
        return
    shown, unit, name = m.groups()
    mult, base = M.split_unit(unit)
    exact = added * W.msubs[solvent].per_amount(base)
    ok, _ = shown_ok(b, shown, unit, exact, 20 * W.q_amt(solvent) * W.msubs[solvent].per_amount(base))
    b.stats['instr:checked'] += 1
    if not ok or name != W.real_name[solvent]:
        b.V('C19', 'dilute_amount', key + (base,), f"{res.name}: instruction says '{dl[-1]}', actually added {float(exact / mult):.9g} {unit} of {solvent}")


def check_fill(b, ev, finfo, res, key):
    t, exp, mpre = finfo
    W = b.world
    solvent = ev['solvent']
    cells = [None] if t.kind == 'container' else t.cells
    if len(set(cells)) != len(cells):
        b.stats['instr:skipped'] += 1      # a well named twice is filled twice (the second time with nothing)
        return
    for cell in cells:
        old = (t.base if cell is None else t.base.wells[cell]).instructions
        r = res if cell is None else res.wells[cell]
        pre = mpre if cell is None else mpre.well(cell)
        lines = new_lines(old, r.instructions)
        if lines is None:
            b.V('C19', 'instructions_replaced', key, f"{r.name}: earlier instructions are no longer a prefix of the new text")
            return
        fl = [ln for ln in lines if ln.startswith('Fill with')]
        if not fl:
            b.stats['instr:skipped'] += 1
            continue
        m = RE_FILL.match(fl[-1])
        if not m:
            b.stats['instr:skipped'] += 1
            continue
        shown, unit, name = m.groups()
        mult, base = M.split_unit(unit)
        post = W.alpha_container(r)
        added = post.contents.get(solvent, F(0)) - pre.contents.get(solvent, F(0))
        exact = added * W.msubs[solvent].per_amount(base)
        ok, _ = shown_ok(b, shown, unit, exact, 20 * W.q_amt(solvent) * W.msubs[solvent].per_amount(base))
        b.stats['instr:checked'] += 1
        if not ok or name != W.real_name[solvent]:
            b.V('C19', 'fill_amount', key + (base,), f"{r.name}: instruction says '{fl[-1]}', actually added {float(exact / mult):.9g} {unit} of {solvent}")
            return


def check_solution(b, ev, named, key, info=None):
    W = b.world
    sol = named[-1][1]
    text = sol.instructions
    if not text.startswith('Add '):
        b.stats['instr:skipped'] += 1
        return
    if isinstance(ev['solvent'], list):
        # "Add <solutes> to <v> <unit> of <solvent container>."
        head, _, tail = text.partition(' to ')
        m = re.match(NUM + r' (\S+) of (.+)\.$', tail)
        post = W.alpha_container(sol)
        came = {}
        if len(named) == 2:
            prev = (info or {}).get('solvent_pre')      # the solvent container as it was handed in
            if prev is not None:
                pm, rm = W.alpha_container(prev), W.alpha_container(named[0][1])
                came = {n: pm.contents.get(n, F(0)) - rm.contents.get(n, F(0)) for n in pm.contents}
        solutes_only = M.MVessel('x', None, {n: post.contents.get(n, F(0)) - came.get(n, F(0)) for n in ev['solutes']})
        check_items(b, head, solutes_only, key, 'solution_amount', sol.name)
        if m and len(named) == 2:
            shown, unit, _name = m.groups()
            resid = W.alpha_container(named[0][1])
            # volume drawn from the solvent container = what the solution holds beyond the added solutes
            rest = M.MVessel('y', None, came if came else {n: a for n, a in post.contents.items() if n not in ev['solutes']})
            exact = W.model.volume(rest)
            mult, base = M.split_unit(unit)
            if base == 'L':
                ok, _ = shown_ok(b, shown, unit, exact, W.tol_volume(rest))
                b.stats['instr:checked'] += 1
                if not ok:
                    kf = (info or {}).get('known')
                    b.V('C19', 'solution_amount', key + ('solvent-volume',),
                        f"{sol.name}: instruction says '{tail}', the aliquot of the solvent container is {float(exact / mult):.9g} {unit}",
                        kf['id'] if kf else None)
        return
    check_items(b, text.split(' to a ')[0], W.alpha_container(sol), key, 'solution_amount', sol.name)


def check_solution_from(b, ev, named, key):
    W = b.world
    sol = named[-1][1]
    m = RE_FROM.match(sol.instructions.split('\n')[-1])
    if not m:
        b.stats['instr:skipped'] += 1
        return
    y, solvent_name, x, src_name = m.groups()
    b.stats['instr:checked'] += 1
    post = W.alpha_container(sol)
    # x mL of source + y mL of solvent = total volume of the new solution (volumes are additive)
    total = W.model.volume(post)
    u = W.units
    d = u.precision('mL')
    tol = F(1, 10 ** d) * F(1, 1000) + total * F(1, 10 ** 6)
    if abs((F(x) + F(y)) * F(1, 1000) - total) > tol:
        b.V('C19', 'solution_from_amount', key, f"{sol.name}: instruction says '{sol.instructions}', but the solution holds {float(total * 1000):.9g} mL")


def install(bench):
    install_monitor(bench.rep)
    _monitor_log[:] = []
    bench.instr_hooks.append(hook)


# --------------------------------------------------------------------------- recipe steps (Engine B)

def self_check_plate_addresses(run, b, i, text, body, rstep, mb, ma, solvent, key, kid):
    """'<amount> <unit> to [A1:A3, B2], ...': every well must be told exactly the amount it received."""
    W = run.W
    rows, cols = ma.rows, ma.cols
    names = {}
    for r, rl in enumerate(rows):
        for c, cl in enumerate(cols):
            names.setdefault(f"{rl}{cl}", []).append((r, c))
    if any(len(v) > 1 for v in names.values()) or \
            any(str(x) != str(x).strip() or ',' in str(x) or ':' in str(x) for x in list(rows) + list(cols)):
        b.stats['instr:skipped'] += 1        # concatenated labels are ambiguous on this plate (or cannot be told apart in a
        return                               # comma-separated list: blanks around a label)
    told = {}
    for shown, unit, addr in re.findall(NUM + r' (\S+) to \[([^\]]*)\]', body):
        try:
            mult, base = M.split_unit(unit)
        except M.ModelError:
            b.stats['instr:skipped'] += 1
            return
        for part in [x.strip() for x in addr.split(',') if x.strip()]:
            ends = part.split(':')
            if len(ends) > 2 or any(e not in names for e in ends):
                b.stats['instr:skipped'] += 1
                return
            (r0, c0) = names[ends[0]][0]
            (r1, c1) = names[ends[-1]][0]
            for r in range(min(r0, r1), max(r0, r1) + 1):
                for c in range(min(c0, c1), max(c0, c1) + 1):
                    told.setdefault((r, c), []).append((F(shown), unit))
    b.stats['instr:plate_addresses_checked'] += 1
    d_default = None
    for cell in ma.all_cells():
        added = ma.well(cell).contents.get(solvent, F(0)) - mb.well(cell).contents.get(solvent, F(0))
        entries = told.get(cell, [])
        if len(entries) > 1:
            b.V('C19', 'step_fill_addresses', key + ('plate', 'twice'),
                f"step {i}: '{text[:200]}': well {rows[cell[0]]}{cols[cell[1]]} is told {len(entries)} different amounts", kid)
            return
        if entries:
            shown, unit = entries[0]
            mult, base = M.split_unit(unit)
            exact = added * W.msubs[solvent].per_amount(base)
            ok, _ = shown_ok(b, str(float(shown)) if False else repr(float(shown)), unit, exact, 40 * W.q_amt(solvent) * W.msubs[solvent].per_amount(base)
                             + 2 * run.fill_slack(ma.well(cell), solvent) * W.msubs[solvent].per_amount(base))
            if not ok:
                b.V('C19', 'step_fill_addresses', key + ('plate', 'amount'),
                    f"step {i}: '{text[:200]}': well {rows[cell[0]]}{cols[cell[1]]} is told {float(shown)} {unit} but received {float(exact / mult):.9g} {unit}", kid)
                return
        else:
            # not listed: must have received nothing at the precision the instruction displays (one unit for all groups)
            vol = added * W.msubs[solvent].per_amount('L')
            shown_step = F(1, 10 ** 6) * F(6, 10)
            if told:
                u0 = next(iter(told.values()))[0][1]
                try:
                    m0, b0_ = M.split_unit(u0)
                    if b0_ == 'L':
                        shown_step = max(shown_step, m0 * F(1, 2 * 10 ** W.units.precision(u0)) * F(1001, 1000))
                except M.ModelError:
                    pass
            if vol > shown_step and vol > 100 * W.q_amt(solvent) * W.msubs[solvent].per_amount('L'):
                b.V('C19', 'step_fill_addresses', key + ('plate', 'missing'),
                    f"step {i}: '{text[:200]}': well {rows[cell[0]]}{cols[cell[1]]} received {float(vol * 10 ** 6):.6g} uL but is not listed", kid)
                return


def _axis_cells(a, b_, step, labels):
    if a not in labels or b_ not in labels:
        return None
    i, j = labels.index(a), labels.index(b_)
    return list(range(i, j + 1, int(step) if step else 1))


def cells_named(shown, plate_name, mo):
    """The wells a slice name printed by the library denotes: P[:], P['A:1'], P['A':'C'], P[:, '1':'3'], P['A':'B', '1':'3'],
    P[['A:1', 'C:5']], each axis optionally with a step ('A':'E':2, ::2).  -> set of (r, c) | None if not understood."""
    rows, cols = [str(x) for x in mo.rows], [str(x) for x in mo.cols]
    if len(set(rows)) != len(rows) or len(set(cols)) != len(cols):
        return None
    if shown == plate_name:
        return set(mo.all_cells())
    if not shown.startswith(plate_name + '[') or not shown.endswith(']'):
        return None
    inner = shown[len(plate_name) + 1:-1].strip()
    allr, allc = list(range(len(rows))), list(range(len(cols)))
    AX = r"(?:'([^']*)':'([^']*)'(?::(\d+))?|:(?::(\d+))?)"

    def axis(g, labels, full):
        a, b_, st, st_all = g
        if a is None and b_ is None:
            return full[::int(st_all)] if st_all else full
        return _axis_cells(a, b_, st, labels)
    if inner.startswith('[') and inner.endswith(']'):
        body = inner[1:-1].strip()
        items = re.findall(r"'([^':']*):([^':']*)'", body)
        if not items or re.sub(r"'[^']*'|[,\s]", '', body):
            return None
        out = set()
        for r_, c_ in items:
            if r_ not in rows or c_ not in cols:
                return None
            out.add((rows.index(r_), cols.index(c_)))
        return out
    m = re.match(r"^'([^':']*):([^':']*)'$", inner)
    if m and m.group(1) in rows and m.group(2) in cols:
        return {(rows.index(m.group(1)), cols.index(m.group(2)))}
    m = re.match("^" + AX + "(?:, " + AX + ")?$", inner)
    if not m:
        return None
    g = m.groups()
    rs = axis(g[0:4], rows, allr)
    cs = axis(g[4:8], cols, allc) if any(x is not None for x in g[4:8]) or inner.count(',') else allc
    if rs is None or cs is None:
        return None
    return {(r_, c_) for r_ in rs for c_ in cs}


def check_recipe_instructions(run):
    """RecipeStep.instructions of a baked recipe vs the ledger."""
    W = run.W
    b = run.bench
    R = run.recipe
    kid = run.first_excuse(('C19',))
    if len(R.steps) != len(run.steps):
        return
    for i, (rs, st) in enumerate(zip(R.steps, run.steps)):
        text = rs.instructions
        c = st['call']
        k = st['kind']
        key = ('recipe.' + k,)
        before, after = run.snap[i], run.snap[i + 1]
        if not isinstance(text, str) or not text:
            b.V('C19', 'step_instruction_missing', key, f"step {i} ({k}) has no instructions", kid)
            continue
        if k == 'dilute':
            m = RE_STEP_DILUTE.match(text)
            if not m:
                b.stats['instr:skipped'] += 1
                continue
            solute, dest, conc, shown, unit, solvent = m.groups()
            name = c['tgt'][0]
            mb, ma = before.get(name), after.get(name)
            if mb is None or ma is None:
                continue
            added = ma.contents.get(c['solvent'], F(0)) - mb.contents.get(c['solvent'], F(0))
            mult, base = M.split_unit(unit)
            exact = added * W.msubs[c['solvent']].per_amount(base)
            ok, _ = shown_ok(b, shown, unit, exact, 20 * W.q_amt(c['solvent']) * W.msubs[c['solvent']].per_amount(base))
            b.stats['instr:checked'] += 1
            if not ok or solvent != W.real_name[c["solvent"]] or solute != W.real_name[c["solute"]]:
                b.V('C19', 'step_dilute_amount', key + (base,), f"step {i}: '{text}', the eager reference added {float(exact / mult):.9g} {unit} of {c['solvent']}", kid)
        elif k == 'fill_to':
            name = c['tgt'][0]
            mb, ma = before.get(name), after.get(name)
            if mb is None or ma is None:
                continue
            solvent = c['solvent']
            if isinstance(mb, M.MVessel):
                m = RE_STEP_FILL.match(text)
                if not m:
                    b.stats['instr:skipped'] += 1
                    continue
                dest, sv, q, shown, unit = m.groups()
                added = ma.contents.get(solvent, F(0)) - mb.contents.get(solvent, F(0))
                mult, base = M.split_unit(unit)
                exact = added * W.msubs[solvent].per_amount(base)
                ok, _ = shown_ok(b, shown, unit, exact, 40 * W.q_amt(solvent) * W.msubs[solvent].per_amount(base) + 2 * run.fill_slack(ma, solvent) * W.msubs[solvent].per_amount(base))
                b.stats['instr:checked'] += 1
                if not ok or sv != W.real_name[solvent]:
                    b.V('C19', 'step_fill_amount', key + (base,), f"step {i}: '{text}', the eager reference added {float(exact / mult):.9g} {unit} of {solvent}", kid)
            else:
                m = RE_STEP_FILL_PLATE.match(text)
                if not m:
                    b.stats['instr:skipped'] += 1
                    continue
                self_check_plate_addresses(run, b, i, text, m.group(4), R.steps[i], mb, ma, solvent, key, kid)
                groups = re.findall(NUM + r' (\S+) to \[', m.group(4))
                if not groups:
                    added_any = any(ma.well(cell).contents.get(solvent, F(0)) - mb.well(cell).contents.get(solvent, F(0)) > 100 * W.q_amt(solvent) for cell in ma.all_cells())
                    if added_any:
                        b.stats['instr:skipped'] += 1
                    continue
                unit = groups[0][1]
                mult, base = M.split_unit(unit)
                listed = [F(g[0]) for g in groups]
                d = W.units.precision(unit)
                b.stats['instr:checked'] += 1
                for cell in ma.all_cells():
                    added = ma.well(cell).contents.get(solvent, F(0)) - mb.well(cell).contents.get(solvent, F(0))
                    exact = added * W.msubs[solvent].per_amount(base) / mult
                    tol = F(1, 2 * 10 ** d) + abs(exact) * F(1, 10 ** 8) + F(1, 10 ** 8)
                    if exact <= tol:
                        continue
                    if not any(abs(x - exact) <= tol for x in listed):
                        b.V('C19', 'step_fill_amount', key + (base, 'plate'),
                            f"step {i}: '{text[:160]}': well {cell} received {float(exact):.9g} {unit}, which is not among the listed amounts", kid)
                        break
        elif k == 'transfer':
            m = RE_STEP_TRANSFER.match(text)
            if not m:
                b.stats['instr:skipped'] += 1
                continue
            b.stats['instr:checked'] += 1
            q, sname, dname = m.groups()
            if q != c['q'] or c['src'][0] not in sname or c['dst'][0] not in dname:
                b.V('C19', 'step_transfer_text', key, f"step {i}: '{text}' does not state {c['q']} from {c['src'][0]} to {c['dst'][0]}", kid)
            # the wells the text names are the wells the step addresses
            for role, ref, shown in (('source', c['src'], sname), ('destination', c['dst'], dname)):
                mo = before.get(ref[0])
                if not isinstance(mo, M.MPlate):
                    continue
                sel = ref[1] if len(ref) > 1 and ref[1] is not None else {'k': 'all'}
                try:
                    want = set(M.select(sel, mo.shape)[0])
                except M.Refuse:
                    continue
                got = cells_named(shown, ref[0], mo)
                if got is None:
                    b.stats['instr:address_unparsed'] += 1
                    continue
                b.stats['instr:address_checked'] += 1
                if got != want:
                    b.V('C19', 'step_transfer_address', key + (role, sel.get('k')),
                        f"step {i}: '{text}' names {len(got)} well(s) of {ref[0]} as {role}, the step addresses {len(want)}: "
                        f"named but not addressed {sorted(got - want)[:4]}, addressed but not named {sorted(want - got)[:4]}", kid)
        else:
            b.stats['instr:other_step_lines'] += 1
    drain_monitor(b, ('recipe',))
