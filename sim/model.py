"""Exact reference model of PyPlate's documented semantics.

Written from the documentation (users guide, docstrings), not from the
implementation.  Never imports pyplate.  All amounts are exact rationals:

  * non-enzymes are held in mol, enzymes in activity units (U);
  * volumes in L, masses in g.

The only shared input with the implementation is the YAML configuration
(default densities, storage units, precisions), handed in as a plain dict.
"""
from __future__ import annotations

from fractions import Fraction as F

SOLID, LIQUID, ENZYME = 'solid', 'liquid', 'enzyme'
KIND_CODE = {SOLID: 1, LIQUID: 2, ENZYME: 3}

PREFIXES = {'n': F(1, 10 ** 9), 'u': F(1, 10 ** 6), 'µ': F(1, 10 ** 6), 'm': F(1, 1000), 'c': F(1, 100),
            'd': F(1, 10), '': F(1), 'da': F(10), 'k': F(1000), 'M': F(10 ** 6)}
BASE_UNITS = ('mol', 'g', 'L', 'U')


class ModelError(Exception):
    """Raised by the model when a request is malformed *for the model* (a harness bug, not a refusal)."""


class Refuse(Exception):
    """The documented semantics refuse this request (ValueError expected from the implementation)."""

    def __init__(self, reason, margin=None):
        super().__init__(reason)
        self.reason = reason
        self.margin = margin


def frac(x) -> F:
    if isinstance(x, F):
        return x
    if isinstance(x, float):
        return F(x)  # exact value of the double
    return F(str(x))


def split_unit(unit: str):
    """'mL' -> (Fraction(1,1000), 'L')"""
    if unit == 'U':
        return F(1), 'U'
    for base in ('mol', 'g', 'L', 'U'):
        if unit.endswith(base):
            prefix = unit[:-len(base)]
            if prefix not in PREFIXES:
                raise ModelError(f"bad prefix in {unit!r}")
            return PREFIXES[prefix], base
    raise ModelError(f"bad unit {unit!r}")


def parse_quantity(q: str):
    """'10 mL' -> (Fraction(1,100), 'L')"""
    value, unit = q.split(' ')
    mult, base = split_unit(unit)
    return F(value) * mult, base


def parse_concentration(c: str, wv_units='g/mL'):
    """-> (value in base units, numerator base unit, denominator base unit)"""
    c = c.strip()
    if '/' not in c:
        if c.endswith('m'):
            c = c[:-1] + 'mol/kg'
        elif c.endswith('M'):
            c = c[:-1] + 'mol/L'
        else:
            raise ModelError(f"bad concentration {c!r}")
    percent = False
    for tag, repl in (('%v/v', 'L/L'), ('%w/w', 'g/g'), ('%w/v', wv_units)):
        if c.endswith(tag):
            c = c[:-4] + repl
            percent = True
    num, den = c.split('/')
    num = num.split()
    den = den.split()
    value = F(num[0])
    if percent:
        value /= 100
    if len(den) > 1:
        value /= F(den[0])
        den = den[1:]
    nm, nb = split_unit(num[1])
    dm, db = split_unit(den[0])
    return value * nm / dm, nb, db


class MSub:
    """A substance of the model."""
    __slots__ = ('name', 'kind', 'M', 'rho', 'act')

    def __init__(self, name, kind, M=None, rho=None, act=None):
        self.name = name
        self.kind = kind
        self.M = None if M is None else frac(M)        # g/mol
        self.rho = None if rho is None else frac(rho)  # g/mL (U/mL for enzymes)
        self.act = None if act is None else frac(act)  # U/g

    @property
    def is_enzyme(self):
        return self.kind == ENZYME

    # conversion factors: amount (mol | U) -> unit
    def per_amount(self, base_unit: str) -> F:
        """How many `base_unit` one unit of amount (1 mol, or 1 U for enzymes) is."""
        if self.kind == ENZYME:
            if base_unit == 'U':
                return F(1)
            if base_unit == 'mol':
                return F(0)
            if base_unit == 'L':
                return 1 / self.rho / 1000
            if base_unit == 'g':
                return 1 / self.act
        else:
            if base_unit == 'U':
                return F(0)
            if base_unit == 'mol':
                return F(1)
            if base_unit == 'g':
                return self.M
            if base_unit == 'L':
                return self.M / self.rho / 1000
        raise ModelError(base_unit)

    def amount_from(self, value: F, base_unit: str) -> F:
        """Amount (mol | U) denoted by `value base_unit` of this substance."""
        if base_unit == 'U' and self.kind != ENZYME:
            raise Refuse("only enzymes can be measured in U")
        k = self.per_amount(base_unit)
        if k == 0:
            return F(0)
        return value / k

    def key(self):
        return (self.name, self.kind, self.M, self.rho, self.act)


class MVessel:
    """Model container: capacity in L (None = unbounded), contents name -> amount (mol | U)."""
    __slots__ = ('name', 'cap', 'contents')

    def __init__(self, name, cap=None, contents=None):
        self.name = name
        self.cap = cap
        self.contents = dict(contents) if contents else {}

    def copy(self, name=None):
        return MVessel(self.name if name is None else name, self.cap, self.contents)

    def total(self, subs, base_unit: str) -> F:
        return sum((subs[n].per_amount(base_unit) * a for n, a in self.contents.items()), F(0))

    def volume(self, subs) -> F:
        return self.total(subs, 'L')

    def add(self, name, amount):
        self.contents[name] = self.contents.get(name, F(0)) + amount


class MPlate:
    __slots__ = ('name', 'cap', 'rows', 'cols', 'wells')

    def __init__(self, name, cap, rows, cols, wells=None):
        self.name = name
        self.cap = cap
        self.rows = list(rows)
        self.cols = list(cols)
        if wells is None:
            wells = [[MVessel(f"well {r},{c}", cap) for c in self.cols] for r in self.rows]
        self.wells = wells

    @property
    def shape(self):
        return len(self.rows), len(self.cols)

    def copy(self):
        return MPlate(self.name, self.cap, self.rows, self.cols,
                      [[w.copy() for w in row] for row in self.wells])

    def well(self, rc):
        return self.wells[rc[0]][rc[1]]

    def all_cells(self):
        return [(r, c) for r in range(len(self.rows)) for c in range(len(self.cols))]


# --------------------------------------------------------------------------- selectors

def default_row_names(n):
    names = []
    for row_num in range(1, n + 1):
        s = ''
        k = row_num
        while k > 0:
            k -= 1
            s = chr(ord('A') + k % 26) + s
            k //= 26
        names.append(s)
    return names


def _axis(spec, n):
    """spec: None (all) | int (1-based single) | [start|None, stop|None, step|None] (1-based, inclusive stop)."""
    if spec is None:
        return list(range(n))
    if isinstance(spec, int):
        if not 1 <= spec <= n:
            raise Refuse("index out of range")
        return [spec - 1]
    start, stop, step = spec
    if start is not None and not 1 <= start <= n:
        raise Refuse("index out of range")
    if stop is not None and not 1 <= stop <= n:
        raise Refuse("index out of range")
    lo = 0 if start is None else start - 1
    hi = n if stop is None else stop
    st = 1 if step is None else step
    if st < 1:
        raise Refuse("step")
    return list(range(lo, hi, st))


def select(sel, shape):
    """Selector spec -> (list of (r, c) zero-based in documented order, (n_rows_sel, n_cols_sel) or None for lists).

    sel forms (all indices 1-based as documented):
      {"k":"all"}                          whole plate
      {"k":"cell","r":i,"c":j}
      {"k":"row","r":i}
      {"k":"rect","r":axis,"c":axis}      axis = None | int | [start, stop, step]
      {"k":"list","cells":[[i,j],...]}
    """
    nr, nc = shape
    k = sel['k']
    if k == 'all':
        return [(r, c) for r in range(nr) for c in range(nc)], (nr, nc)
    if k == 'cell':
        r = _axis(sel['r'], nr)
        c = _axis(sel['c'], nc)
        return [(r[0], c[0])], (1, 1)
    if k == 'row':
        r = _axis(sel['r'], nr)
        return [(r[0], c) for c in range(nc)], (1, nc)
    if k == 'rect':
        rs = _axis(sel['r'], nr)
        cs = _axis(sel['c'], nc)
        return [(r, c) for r in rs for c in cs], (len(rs), len(cs))
    if k == 'sub':
        # a slice of a slice: numpy-style 0-based, half-open indexing relative to the rows / columns the base selects
        base_cells, base_shape = select(sel['base'], shape)
        if base_shape is None:
            raise ModelError("sub-slice of a list")
        rows = sorted(set(r for r, _ in base_cells))
        cols = sorted(set(c for _, c in base_cells))
        (a, b), (c0, c1) = sel['sub']
        rs, cs = rows[a:b], cols[c0:c1]
        return [(r, c) for r in rs for c in cs], (len(rs), len(cs))
    if k == 'list':
        cells = []
        for i, j in sel['cells']:
            if not (1 <= i <= nr and 1 <= j <= nc):
                raise Refuse("index out of range")
            cells.append((i - 1, j - 1))
        return cells, None
    raise ModelError(f"selector {sel!r}")


# --------------------------------------------------------------------------- operations

class Model:
    """Documented semantics over MVessel / MPlate, parameterised by the substance table and the config dict."""

    def __init__(self, subs: dict, cfg: dict):
        self.subs = subs            # name -> MSub
        self.cfg = cfg
        self.wv = cfg.get('default_weight_volume_units', 'g/mL')

    # ---- totals
    def total(self, v: MVessel, base_unit):
        return v.total(self.subs, base_unit)

    def volume(self, v: MVessel):
        return v.total(self.subs, 'L')

    # ---- construction
    def make_container(self, name, cap_q, contents):
        """contents: list of (substance name, quantity string)."""
        cap = None
        if cap_q is not None:
            cap, unit = parse_quantity(cap_q)
            if unit != 'L':
                raise ModelError("capacity unit")
            if cap <= 0:
                raise Refuse("capacity must be positive")
        v = MVessel(name, cap)
        margin = None
        for sname, q in contents or ():
            value, unit = parse_quantity(q)
            sub = self.subs[sname]
            if value < 0:
                raise Refuse("negative quantity", margin=value)
            v.add(sname, sub.amount_from(value, unit))
            if cap is not None:
                m = cap - self.volume(v)
                margin = m if margin is None else min(margin, m)
        if margin is not None and margin < 0:
            raise Refuse("exceeds capacity", margin=margin)
        return v, margin

    # ---- transfer between two vessels
    def transfer(self, src: MVessel, dst: MVessel, q: str):
        """-> (new_src, new_dst, info). info: dict(ratio, margin_src, margin_dst, T, value, unit)."""
        value, unit = parse_quantity(q)
        T = self.total(src, unit)
        info = {'value': value, 'unit': unit, 'T': T}
        if value < 0:
            raise Refuse("negative quantity", margin=value)
        info['margin_src'] = T - value
        if value > T:
            raise Refuse("more than the source holds", margin=T - value)
        ratio = F(0) if value == 0 else value / T
        info['ratio'] = ratio
        ns, nd = src.copy(), dst.copy()
        for n, a in src.contents.items():
            moved = a * ratio
            ns.contents[n] = a - moved
            nd.add(n, moved)
        if dst.cap is not None:
            info['margin_dst'] = dst.cap - self.volume(nd)
            if info['margin_dst'] < 0:
                raise Refuse("exceeds capacity of destination", margin=info['margin_dst'])
        else:
            info['margin_dst'] = None
        return ns, nd, info

    # ---- remove
    def remove(self, v: MVessel, what):
        """what: substance name or kind ('solid'|'liquid'|'enzyme')."""
        nv = v.copy()
        removed = {}
        for n in list(nv.contents):
            if n == what or self.subs[n].kind == what:
                removed[n] = nv.contents.pop(n)
        return nv, removed

    # ---- fill_to
    def fill_to(self, v: MVessel, solvent: str, q: str):
        value, unit = parse_quantity(q)
        if value <= 0:
            raise Refuse("quantity must be positive", margin=value)
        if unit not in ('L', 'g', 'mol'):
            raise Refuse("only L, g, mol")
        current = self.total(v, unit)
        info = {'margin_low': value - current, 'current': current, 'value': value, 'unit': unit}
        if value < current:
            raise Refuse("below current quantity", margin=value - current)
        sub = self.subs[solvent]
        k = sub.per_amount(unit)
        if k == 0:
            raise Refuse("solvent cannot be measured in that unit")
        nv = v.copy()
        nv.add(solvent, (value - current) / k)
        if v.cap is not None:
            info['margin_cap'] = v.cap - self.volume(nv)
            if info['margin_cap'] < 0:
                raise Refuse("exceeds capacity", margin=info['margin_cap'])
        else:
            info['margin_cap'] = None
        return nv, info

    # ---- concentration
    def concentration(self, v: MVessel, solute: str, units: str):
        """Value of get_concentration(solute, units): units is e.g. 'M', 'mmol/L', '%w/w', 'mg/10 uL'."""
        mult, num, den = parse_concentration('1 ' + units, self.wv)
        top = self.subs[solute].per_amount(num) * v.contents.get(solute, F(0))
        if top == 0:
            return F(0)
        bottom = self.total(v, den)
        if bottom == 0:
            raise ModelError("zero denominator")
        return top / bottom / mult

    def concentration_base(self, v: MVessel, solute: str, num, den):
        top = self.subs[solute].per_amount(num) * v.contents.get(solute, F(0))
        bottom = self.total(v, den)
        if bottom == 0:
            return None
        return top / bottom

    # ---- dilute
    def dilute(self, v: MVessel, solute: str, conc: str, solvent: str, name=None):
        c, num, den = parse_concentration(conc, self.wv)
        if solute not in v.contents or v.contents[solute] <= 0:
            raise Refuse("solute absent")
        if c <= 0:
            raise Refuse("non-positive target")
        top = self.subs[solute].per_amount(num) * v.contents[solute]
        if top == 0:
            raise Refuse("solute cannot be measured in numerator unit")
        bottom = self.total(v, den)
        info = {'c': c, 'num': num, 'den': den}
        current = None if bottom == 0 else top / bottom
        info['current'] = current
        k = self.subs[solvent].per_amount(den)
        if current is not None:
            info['margin_rel'] = (current - c) / current
            if c > current:
                raise Refuse("higher than current", margin=(current - c) / current)
        if k == 0:
            raise Refuse("solvent cannot be measured in denominator unit")
        x = (top / c - bottom) / k
        nv = v.copy(name)
        nv.add(solvent, x)
        info['added'] = x
        if v.cap is not None:
            info['margin_cap'] = v.cap - self.volume(nv)
            if info['margin_cap'] < 0:
                raise Refuse("exceeds capacity", margin=info['margin_cap'])
        else:
            info['margin_cap'] = None
        return nv, info
