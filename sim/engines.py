"""Property -> engine(s).  A check may mix engines: the run index decides which engine a run uses, and every
record names its engine so that replay needs no such rule."""
from __future__ import annotations

from . import evidence


def _known():
    from . import known
    return known.load()


class _A:
    name = 'A'

    @staticmethod
    def run_generated(prop, seed, run, tier, known=None):
        from . import engine_a
        return engine_a.run_generated(prop, seed, run, tier, known)

    @staticmethod
    def run_replay(record, known=None):
        from . import engine_a
        return engine_a.run_replay(record, known)


class _B:
    name = 'B'

    @staticmethod
    def run_generated(prop, seed, run, tier, known=None):
        from . import engine_b
        return engine_b.run_generated(prop, seed, run, tier, known)

    @staticmethod
    def run_replay(record, known=None):
        from . import engine_b
        return engine_b.run_replay(record, known)


class _C04:
    name = 'C04'

    @staticmethod
    def run_generated(prop, seed, run, tier, known=None):
        from . import engine_c04
        return engine_c04.run_generated(prop, seed, run, tier, known)

    @staticmethod
    def run_replay(record, known=None):
        from . import engine_c04
        return engine_c04.run_replay(record, known)


class _C:
    name = 'C'

    @staticmethod
    def run_generated(prop, seed, run, tier, known=None):
        from . import engine_c
        return engine_c.run_generated(prop, seed, run, tier, known)

    @staticmethod
    def run_replay(record, known=None):
        from . import engine_c
        return engine_c.run_replay(record, known)


BY_NAME = {'A': _A, 'B': _B, 'C04': _C04, 'C': _C}

RULE_C = ("cases = simulated runs of Engine C: one seeded script (an Engine-A history, or for ~30% of the runs an Engine-B recipe "
          "program with tracking queries), generated on the shipped configuration and then replayed on 2-4 further replicas of the "
          "library loaded in the same process through the real PYPLATE_CONFIG -> pyplate.yaml seam with seeded "
          "moles_storage_unit in {nmol, umol, mmol, mol}, volume_storage_unit in {nL, uL, mL, L}, internal_precision in {10, 12} "
          "(default densities vary per run, equal across the replicas of a run). Requests are kept far from feasibility "
          "boundaries. Compared per event: outcome class, contents / volume / capacity of every result in user units, a panel of "
          "observer answers, bake() results and tracking answers; plus: an oracle violation that appears only under a "
          "non-shipped configuration. Non-trivial: >= 2 successful state-changing events; distinct = distinct coverage signatures "
          "(event tuples + the set of configurations).")

# property -> list of (engine name, weight): run r uses the engine whose slot contains r mod sum(weights)
MIX = {
    'C01': [('A', 6), ('B', 1)], 'C02': [('A', 6), ('B', 1)], 'C10': [('A', 1)], 'C11': [('A', 1)],
    'C03': [('A', 7), ('B', 1)],
    'C07': [('A', 4), ('B', 1)],
    'C17': [('A', 2), ('B', 1)],
    'C19': [('A', 2), ('B', 1)],
    'C08': [('B', 1)], 'C09': [('B', 1)], 'C15': [('B', 1)], 'C16': [('B', 1)],
    'C04': [('C04', 1)],
    'C18': [('C', 1)],
}

RULE_B = ("cases = simulated runs of Engine B: a seeded recipe program - a prelude of directly built (non-uniform) containers and "
          "plates, then a history of Recipe API calls (uses, create_container, create_solution, create_solution_from, transfer, "
          "remove, dilute, fill_to, start_stage, end_stage, bake, illegal calls, calls after bake) produced by interleaving intents "
          "over shared objects - executed on the real Recipe beside an eager reference (the same operations through the direct API), "
          "a per-step ledger (model snapshots of every object at every step boundary) and a life-cycle reference machine. "
          "A run is non-trivial if at least two steps were accepted; distinct = distinct coverage signatures (sorted set of "
          "(call kind, predicted outcome, actual outcome, life-cycle state) and query tuples of the run). Inside the same run some "
          "programs are followed by a second recipe on the baked results (15 %), mirrored call by call on a second Recipe object "
          "(shadow, 12 %), or run again under other names (alias, 10 %); the probes count them.")


class Mixed:
    def __init__(self, prop):
        self.prop = prop
        self.mix = MIX[prop]
        self.total = sum(w for _, w in self.mix)
        if prop == 'C04':
            self.chunk = 2

    def load_known(self):
        return _known()

    def engine_of_run(self, run):
        r = run % self.total
        for name, w in self.mix:
            if r < w:
                return BY_NAME[name]
            r -= w
        raise AssertionError

    def run_generated(self, prop, seed, run, tier, known=None):
        return self.engine_of_run(run).run_generated(prop, seed, run, tier, known)

    def run_replay(self, record, known=None):
        return BY_NAME[record.get('engine', self.mix[0][0])].run_replay(record, known)

    def rule(self, prop):
        names = [n for n, _ in self.mix]
        if names == ['C04']:
            from . import engine_c04
            return engine_c04.rule()
        if names == ['C']:
            return RULE_C
        parts = []
        if 'A' in names:
            parts.append(evidence.RULE['A'])
        if 'B' in names:
            parts.append(RULE_B)
        if len(names) > 1:
            parts.append("run r uses engine " + ", ".join(f"{n} for {w} of every {self.total} indices" for n, w in self.mix) + ".")
        return " ".join(parts)


def engine_for(prop, record=None):
    return Mixed(prop)
