"""Property -> engine."""
from __future__ import annotations

ENGINE_A = ('C01', 'C02', 'C03', 'C07', 'C10', 'C11', 'C17', 'C19')


class _EngineA:
    name = 'A'

    @staticmethod
    def load_known():
        from . import known
        return known.load()

    @staticmethod
    def run_generated(prop, seed, run, tier, known=None):
        from . import engine_a
        return engine_a.run_generated(prop, seed, run, tier, known)

    @staticmethod
    def run_replay(record, known=None):
        from . import engine_a
        return engine_a.run_replay(record, known)


def engine_for(prop, record=None):
    if record is not None:
        name = record.get('engine', 'A')
    else:
        name = 'A' if prop in ENGINE_A else None
    if name == 'A':
        return _EngineA
    raise KeyError(prop)
