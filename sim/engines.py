"""Property -> engine."""
from __future__ import annotations

ENGINE_A = ('C01', 'C02', 'C03', 'C07', 'C10', 'C11', 'C17', 'C19')


class _EngineA:
    name = 'A'

    @staticmethod
    def load_known():
        from . import known
        return known.load()

    @staticmethod
    def run_generated(prop, seed, run, tier, known=None):
        from . import engine_a
        return engine_a.run_generated(prop, seed, run, tier, known)

    @staticmethod
    def run_replay(record, known=None):
        from . import engine_a
        return engine_a.run_replay(record, known)


class _EngineC04:
    name = 'C04'
    chunk = 2
    load_known = _EngineA.load_known

    @staticmethod
    def run_generated(prop, seed, run, tier, known=None):
        from . import engine_c04
        return engine_c04.run_generated(prop, seed, run, tier, known)

    @staticmethod
    def run_replay(record, known=None):
        from . import engine_c04
        return engine_c04.run_replay(record, known)

    @staticmethod
    def rule(prop):
        from . import engine_c04
        return (f"runs 0..{engine_c04.N_CORPUS - 1}: a fixed corpus of {engine_c04.N_CORPUS} operations (every op kind x pairing form, "
                "successful and naturally failing part-way) for each of which EVERY fault instant is enumerated: an injected "
                "KeyboardInterrupt / MemoryError at each traced line event of pyplate/*.py and copy.py, and a MemoryError from each "
                "deepcopy call; remaining runs: seeded Engine-A histories in which 10-40% of the events carry a fault at a seeded "
                "instant (dry run -> faulted run -> invariants -> recovery). After every fault the fingerprint of every live object, "
                "every argument and the module config must be unchanged and the fault-free retry must equal the dry run. "
                "Non-trivial: >= 2 successful state-changing events (or an enumeration); distinct = distinct coverage signatures "
                "(event tuples incl. fault kind and phase quintile).")


def engine_for(prop, record=None):
    if record is not None:
        name = record.get('engine', 'A')
    else:
        name = 'A' if prop in ENGINE_A else 'C04' if prop == 'C04' else None
    if name == 'A':
        return _EngineA
    if name == 'C04':
        return _EngineC04
    raise KeyError(prop)
