"""Seeded workload generator for Engine A (the bench).  Every choice comes from the one PRNG handed in.

Generation is interleaved with execution (the generator looks at the model twins of the current state to
aim at feasibility boundaries), but the *recorded* event list alone is what replay executes.
"""
from __future__ import annotations

from decimal import Decimal, getcontext
from fractions import Fraction as F

from . import model as M

getcontext().prec = 40

LIQUIDS = [('water', '18.0153', '1'), ('ethanol', '46.07', '0.789'), ('DMSO', '78.13', '1.1'),
           ('glycerol', '92.09', '1.261'), ('hexane', '86.18', '0.6606'), ('bromoform', '252.73', '2.89'),
           ('mercury', '200.59', '13.5'), ('pentane', '72.15', '0.626')]
SOLIDS = [('NaCl', '58.4428'), ('KCl', '74.55'), ('glucose', '180.156'), ('ATP', '507.18'), ('LiH', '7.95'),
          ('peptide', '1999.2'), ('triethylamineHCl', '137.65')]
ENZYMES = [('amylase', '10 U/mg'), ('lysozyme', '2 U/g'), ('ligase', '400 U/ug'), ('lipase', '0.5 U/mg'),
           ('kinase', '1250 U/g')]

VOL_PREFIXES = ['n', 'u', 'm', 'c', 'd', '']
MASS_PREFIXES = ['n', 'u', 'm', '', 'k']
MOL_PREFIXES = ['n', 'u', 'm', '']


def dec(fr: F, digits=12) -> str:
    """Decimal string of a Fraction with `digits` significant digits, plain notation."""
    if fr == 0:
        return '0'
    d = Decimal(fr.numerator) / Decimal(fr.denominator)
    s = format(d, f'.{digits}g')
    if 'e' in s or 'E' in s:
        s = format(Decimal(s), 'f')
    if '.' in s:
        s = s.rstrip('0').rstrip('.')
    return s


SCI_NOTATION = False      # set per run from the profile ('sci_notation'); off means no extra draw from the PRNG


def fmt_quantity(rng, value: F, base: str, digits=None, prefixes=None) -> str:
    """A quantity string denoting (approximately) `value` base units, with a seeded prefix choice."""
    if base == 'U':
        if rng.random() < 0.04 and value != 0:
            p = rng.choice(['m', 'k'])      # a spelling the library may refuse; if it accepts it, it has to mean it
            return f"{dec(value / M.PREFIXES[p], digits or 8)} {p}U"
        return f"{dec(value, digits or 8)} U"
    table = prefixes or {'L': VOL_PREFIXES, 'g': MASS_PREFIXES, 'mol': MOL_PREFIXES}[base]
    good = [p for p in table if F(1, 10 ** 4) <= abs(value) / M.PREFIXES[p] < 10 ** 6] if value != 0 else table
    p = rng.choice(good or table)
    if rng.random() < 0.03 and p == 'u':
        p = 'µ'
    number = dec(value / M.PREFIXES[p], digits or 8)
    if SCI_NOTATION and value != 0 and rng.random() < 0.04:
        # the same number as a spreadsheet or an instrument export spells it: 2.5E+2, 1e-04 (whatever float() reads is a number)
        d = Decimal(number)
        number = rng.choice(['{:E}', '{:e}']).format(d)
        if rng.random() < 0.5:
            number = number.replace('E+', 'E').replace('e+', 'e')
    return f"{number} {p}{base}"


def round_sig(rng, x: float, round_numbers: bool) -> F:
    """A value near x: few significant digits in 'round' mode, up to 7 otherwise."""
    if x == 0:
        return F(0)
    nd = rng.choice([1, 1, 2, 2, 3]) if round_numbers else rng.choice([3, 4, 5, 6, 7])
    s = format(x, f'.{nd}g')
    return F(s)


def loguniform(rng, lo, hi):
    import math
    return math.exp(rng.uniform(math.log(lo), math.log(hi)))


def gen_substances(rng, profile):
    n = rng.randint(2, 6)
    kinds = [M.LIQUID]
    for _ in range(n - 1):
        kinds.append(rng.choices([M.LIQUID, M.SOLID, M.ENZYME], weights=profile.get('kind_w', [4, 3, 2]))[0])
    subs = []
    used = set()
    for k in kinds:
        pool = {M.LIQUID: LIQUIDS, M.SOLID: SOLIDS, M.ENZYME: ENZYMES}[k]
        cand = [p for p in pool if p[0] not in used]
        if cand and rng.random() < 0.75:
            p = rng.choice(cand)
            name = p[0]
        else:
            name = f"{k[0].upper()}x{len(subs)}"
            if k == M.LIQUID:
                p = (name, dec(F(repr(round(loguniform(rng, 1, 2000), 3))), 8), dec(F(repr(round(loguniform(rng, 0.3, 20), 4))), 6))
            elif k == M.SOLID:
                p = (name, dec(F(repr(round(loguniform(rng, 1, 2000), 3))), 8))
            else:
                val = round_sig(rng, loguniform(rng, 1e-3, 1e6), True)
                p = (name, f"{dec(val)} U/g")
        used.add(name)
        if k == M.LIQUID:
            subs.append([name, k, p[1], p[2], None])
        elif k == M.SOLID:
            subs.append([name, k, p[1], None, None])
        else:
            subs.append([name, k, None, None, p[1]])
    # twins: a second substance carrying the *same name* as an existing one but another molar mass, density or kind
    # (hydrate vs anhydrous salt, two grades of a solvent).  For the library these are distinct substances (its identity
    # is name + kind + molar mass + density); everything keyed by name alone confuses them.
    if rng.random() < profile.get('p_twin', 0.15):
        cand = [s for s in subs if s[1] != M.ENZYME]
        if cand:
            o = rng.choice(cand)
            key = o[0] + '~2'
            how = rng.choice(['mw', 'rho', 'kind', 'both'])
            mw2 = dec(F(repr(round(float(o[2]) * rng.choice([0.5, 1.1, 2.0, 3.7]) + rng.choice([0, 18.015]), 3))), 8)
            if o[1] == M.SOLID:
                if how in ('kind', 'rho'):
                    subs.append([key, M.LIQUID, o[2] if how == 'kind' else mw2, dec(F(repr(round(loguniform(rng, 0.5, 3), 3))), 6), None, o[0]])
                else:
                    subs.append([key, M.SOLID, mw2, None, None, o[0]])
            else:
                rho2 = dec(F(repr(round(float(o[3]) * rng.choice([0.8, 1.25, 2.0]), 4))), 6)
                if how == 'kind':
                    subs.append([key, M.SOLID, mw2 if rng.random() < 0.5 else o[2], None, None, o[0]])
                elif how == 'mw':
                    subs.append([key, M.LIQUID, mw2, o[3], None, o[0]])
                elif how == 'rho':
                    subs.append([key, M.LIQUID, o[2], rho2, None, o[0]])
                else:
                    subs.append([key, M.LIQUID, mw2, rho2, None, o[0]])
    return subs


# --------------------------------------------------------------------------- selectors

def gen_selector(rng, shape, want=None, allow_list=False):
    """Random selector spec on a plate of `shape`.  want: None | 'cell' | (h, w) exact rect shape."""
    nr, nc = shape
    if want == 'cell':
        return {'k': 'cell', 'r': rng.randint(1, nr), 'c': rng.randint(1, nc), 'form': rng.choice(['str', 'tup', 'lab'])}
    if isinstance(want, tuple) and rng.random() < 0.25:
        # the wanted shape as a stepped selection (every 2nd / 3rd row or column): interleaves with its neighbours
        h, w = want
        sr = rng.choice([s for s in (1, 2, 3) if (h - 1) * s + 1 <= nr])
        sc = rng.choice([s for s in (1, 2, 3) if (w - 1) * s + 1 <= nc])
        if sr > 1 or sc > 1:
            r0 = rng.randint(1, nr - (h - 1) * sr)
            c0 = rng.randint(1, nc - (w - 1) * sc)
            r1, c1 = r0 + (h - 1) * sr, c0 + (w - 1) * sc
            return {'k': 'rect', 'r': [r0, r1 if rng.random() < 0.7 or r1 + sr <= nr else None, sr if sr > 1 else None],
                    'c': [c0, c1 if rng.random() < 0.7 or c1 + sc <= nc else None, sc if sc > 1 else None], 'rl': False, 'cl': False}
    if isinstance(want, tuple):
        h, w = want
        r0 = rng.randint(1, nr - h + 1)
        c0 = rng.randint(1, nc - w + 1)
        return rect_spec(rng, nr, nc, r0, r0 + h - 1, c0, c0 + w - 1)
    kind = rng.choices(['all', 'cell', 'row', 'rect', 'col', 'step', 'list'],
                       weights=[2, 3, 2, 4, 2, 1, float(allow_list)])[0]
    if kind == 'all':
        return {'k': 'all'}
    if kind == 'cell':
        return gen_selector(rng, shape, 'cell')
    if kind == 'row':
        return {'k': 'row', 'r': rng.randint(1, nr), 'form': rng.choice(['int', 'lab'])}
    if kind == 'col':
        c = rng.randint(1, nc)
        return rect_spec(rng, nr, nc, 1, nr, c, c)
    if kind == 'step':
        rs = rng.randint(1, 3)
        cs = rng.randint(1, 3)
        return {'k': 'rect', 'r': [rng.choice([None, 1, min(2, nr)]), None, rs if rs > 1 else None],
                'c': [rng.choice([None, 1, min(2, nc)]), None, cs if cs > 1 else None],
                'rl': False, 'cl': False}
    if kind == 'list':
        n = rng.randint(2 if nr * nc >= 2 else 1, min(4, nr * nc))
        cells = rng.sample([(r, c) for r in range(1, nr + 1) for c in range(1, nc + 1)], n)
        if rng.random() < 0.25:
            # the same well named twice: a list is visited in the order given, so the well is simply visited twice
            cells.insert(rng.randint(0, len(cells)), rng.choice(cells))
            if nr * nc <= 8 and len(set(cells)) < nr * nc and rng.random() < 0.5:
                # ... and so often that the list is as long as the plate is large, without covering it
                while len(cells) < nr * nc:
                    cells.insert(rng.randint(0, len(cells)), rng.choice(cells))
        return {'k': 'list', 'cells': [list(x) for x in cells], 'forms': [rng.choice(['str', 'tup', 'lab']) for _ in cells]}
    r0 = rng.randint(1, nr)
    r1 = rng.randint(r0, nr)
    c0 = rng.randint(1, nc)
    c1 = rng.randint(c0, nc)
    return rect_spec(rng, nr, nc, r0, r1, c0, c1)


def rect_spec(rng, nr, nc, r0, r1, c0, c1):
    def axis(a, b, n):
        if a == b and rng.random() < 0.5:
            return a
        lo = None if (a == 1 and rng.random() < 0.5) else a
        hi = None if (b == n and rng.random() < 0.5) else b
        return [lo, hi, None]
    sel = {'k': 'rect', 'r': axis(r0, r1, nr), 'c': axis(c0, c1, nc), 'rl': rng.random() < 0.4, 'cl': rng.random() < 0.4}
    if isinstance(sel['r'], int) and isinstance(sel['c'], int):
        return {'k': 'cell', 'r': sel['r'], 'c': sel['c'], 'form': rng.choice(['str', 'tup', 'lab'])}
    if sel['c'] == [None, None, None]:
        sel['c'] = None
        sel['short'] = rng.random() < 0.5
    return sel


# --------------------------------------------------------------------------- the generator

class GenA:
    def __init__(self, rng, bench, profile):
        global SCI_NOTATION
        SCI_NOTATION = bool(profile.get('sci_notation', False))
        self.rng = rng
        self.b = bench
        self.W = bench.world
        self.p = profile
        self.round = profile.get('round_numbers', False)
        self.mag = profile.get('magnitude', 'uL-mL')
        self.n_cont = 0
        self.n_plate = 0
        self.n_sol = 0
        self.n_hold = 0
        self.used_names = set()
        self.mirror = None
        self.last_fills = []
        self.only_plate = None
        self.pending = []

    # ---- magnitudes
    def volume_scale(self):
        lo, hi = {'nL-uL': (1e-9, 1e-5), 'uL-mL': (1e-6, 5e-2), 'mL-L': (1e-3, 10.0)}[self.mag]
        return loguniform(self.rng, lo, hi)

    def subs_of(self, kind=None):
        return [n for n, s in self.W.msubs.items() if kind is None or s.kind == kind]

    # ---- events
    def initial_events(self):
        rng = self.rng
        evs = []
        for _ in range(rng.randint(2, 4)):
            evs.append(self.ev_new_container())
        for _ in range(rng.randint(1, 2)):
            evs.append(self.ev_new_plate())
        rng.shuffle(evs)
        if rng.random() < self.p.get('p_mirror', 0.1):
            evs += self.mirror_setup()
        return evs

    def mirror_setup(self):
        """Two plates of one make, dosed alike from two differently named stocks of one composition: their wells are equal
        as values (same name 'well A,1', same contents) but have different histories.  Later some operations are applied
        to both plates in turn - anything keyed by value equality alone then confuses the two."""
        import copy
        rng = self.rng
        s1 = self.ev_new_container(boundary=rng.choice(['inf', 'roomy']))
        if not s1['contents']:
            return [s1]
        s2 = copy.deepcopy(s1)
        s2['name'] = f"V{self.n_cont}"
        self.n_cont += 1
        pa = self.ev_new_plate()
        pb = copy.deepcopy(pa)
        pb['name'] = f"P{self.n_plate}"
        self.n_plate += 1
        self.mirror = (pa['name'], pb['name'])
        nr = pa['rows'] if isinstance(pa['rows'], int) else len(pa['rows'])
        nc = pa['cols'] if isinstance(pa['cols'], int) else len(pa['cols'])
        sel = gen_selector(rng, (nr, nc))
        # a modest portion per well
        try:
            val, unit = M.parse_quantity(s1['contents'][0][1])
        except Exception:
            return [s1, s2, pa, pb]
        ms = self.W.msubs[s1['contents'][0][0]]
        vol = ms.amount_from(abs(val), unit) * ms.per_amount('L')
        capv = M.parse_quantity(pa['cap'])[0] if pa.get('cap') else None
        per = vol / (nr * nc * 4)
        if capv is not None:
            per = min(per, capv / 4)
        if per <= 0:
            return [s1, s2, pa, pb]
        q = fmt_quantity(rng, round_sig(rng, float(per), True), 'L')
        self.pending.append({'op': 'transfer', 'src': [s1['name'], -1], 'dst': [pa['name'], -1, sel], 'q': q, 'obs': rng.randrange(1 << 30)})
        self.pending.append({'op': 'transfer', 'src': [s2['name'], -1], 'dst': [pb['name'], -1, sel], 'q': q, 'obs': rng.randrange(1 << 30)})
        return [s1, s2, pa, pb]

    def mirrored_event(self):
        """An operation on the first mirror plate, queued again for the second."""
        import copy
        rng = self.rng
        pa, pb = self.mirror
        for _ in range(8):
            op = rng.choice(['fill_to', 'fill_to', 'remove', 'transfer'])
            self.only_plate = pa
            save = self.p
            self.p = dict(self.p, stale_p=0.0)      # always the latest version: both plates keep evolving alike
            try:
                ev = getattr(self, 'gen_' + op)()
            finally:
                self.only_plate = None
                self.p = save
            if ev is None:
                continue
            refs = [ev[f] for f in ('src', 'dst', 'tgt') if isinstance(ev.get(f), list)]
            if not any(r[0] == pa for r in refs) or any(r[0] == pb for r in refs):
                continue
            twin = copy.deepcopy(ev)
            for f in ('src', 'dst', 'tgt'):
                if isinstance(twin.get(f), list) and twin[f][0] == pa:
                    twin[f][0] = pb
            twin['obs'] = rng.randrange(1 << 30)
            self.pending.append(twin)
            self.b.stats['probe:mirrored_pair'] += 1
            return ev
        return None

    def ev_new_container(self, boundary=None):
        rng = self.rng
        name = f"V{self.n_cont}"
        self.n_cont += 1
        names = self.subs_of()
        if rng.random() < self.p.get('p_substance_named_vessel', 0.06):
            # a bottle labelled with what it holds: the object's name coincides with a substance's name
            cand = sorted(set(self.W.real_name[n] for n in names) - set(self.W.reg) - self.used_names)
            if cand:
                name = rng.choice(cand)
                self.used_names.add(name)
        k = rng.choice([0, 1, 1, 2, 2, 3, 4]) if len(names) > 1 else rng.choice([0, 1])
        chosen = rng.sample(names, min(k, len(names)))
        if chosen and rng.random() < self.p.get('p_repeat_content', 0.12):
            # the same substance listed twice (two portions): the portions add up
            chosen.insert(rng.randint(0, len(chosen)), rng.choice(chosen))
        contents = []
        vol = F(0)
        scale = self.volume_scale()
        for n in chosen:
            ms = self.W.msubs[n]
            unit = rng.choice(['L', 'L', 'g', 'mol'] if not ms.is_enzyme else ['U', 'U', 'g', 'L'])
            v_l = F(repr(scale * rng.uniform(0.05, 1.0)))
            if ms.kind == M.SOLID:
                v_l = v_l / rng.choice([1, 5, 20])
            if ms.is_enzyme:
                v_l = v_l / rng.choice([10, 100, 1000])
            value = round_sig(rng, float(ms.amount_from(v_l, 'L') * ms.per_amount(unit)), self.round)
            if value <= 0:
                continue
            q = fmt_quantity(rng, value, unit)
            contents.append([n, q])
            val, bu = M.parse_quantity(q)
            vol += ms.amount_from(val, bu) * ms.per_amount('L')
        if contents and rng.random() < self.p.get('p_trace', 0.06):
            # a trace component: nanomoles in millilitres to litres (concentrations down to 1e-9 in base units)
            cand = [n for n in names if not self.W.msubs[n].is_enzyme and n not in chosen]
            if cand:
                n = rng.choice(cand)
                amt = round_sig(rng, loguniform(rng, 2e4 if rng.random() < 0.5 else 1.2e7, 1e9) * float(self.W.q_amt(n)), True)
                q = fmt_quantity(rng, amt, 'mol')
                contents.append([n, q])
                val, bu = M.parse_quantity(q)
                vol += self.W.msubs[n].amount_from(val, bu) * self.W.msubs[n].per_amount('L')
        cap = None
        mode = boundary or rng.choices(['inf', 'roomy', 'tight', 'exact', 'over', 'negative'],
                                       weights=self.p.get('cap_w', [3, 5, 2, 1, 0.5, 0.2]))[0]
        if mode == 'negative' and contents:
            i = rng.randrange(len(contents))
            contents[i][1] = '-' + contents[i][1]
            mode = 'roomy'
        if mode != 'inf':
            if vol == 0:
                capv = F(repr(scale))
            elif mode == 'roomy':
                capv = vol * F(repr(round(rng.uniform(1.3, 6), 2)))
            elif mode == 'tight':
                capv = vol * (1 + F(1, 10 ** 5))
            elif mode == 'exact':
                capv = vol
            else:
                capv = vol * F(repr(round(rng.uniform(0.3, 0.98), 3)))
            if mode in ('roomy',):
                capv = round_sig(rng, float(capv), True)
                if capv < vol:
                    capv = capv * 2
            cap = fmt_quantity(rng, capv, 'L', digits=14 if mode in ('exact', 'tight') else 8)
        return {'op': 'new_container', 'name': name, 'cap': cap, 'contents': contents, 'obs': rng.randrange(1 << 30)}

    def ev_new_plate(self):
        rng = self.rng
        name = f"P{self.n_plate}"
        self.n_plate += 1
        regime = self.p.get('plate_size', 'small')
        if regime == 'small':
            nr, nc = rng.choice([(1, 1), (1, 3), (2, 2), (2, 3), (3, 2), (3, 4), (4, 3), (1, 6), (5, 1)])
        elif regime == 'medium':
            nr, nc = rng.choice([(4, 6), (3, 8), (6, 4), (2, 12)])
        else:
            nr, nc = rng.choice([(8, 12), (8, 12), (16, 24)])
        rows, cols = nr, nc
        def case_pairs(n, base):
            # labels that differ only in letter case: x, X, y, Y, ...
            out = []
            for i in range(n):
                ch = chr(ord(base) + i // 2)
                out.append(ch if i % 2 == 0 else ch.upper())
            return out
        r = rng.random()
        if r < 0.25:
            rows = [f"r{i}" for i in range(1, nr + 1)] if rng.random() < 0.5 else [chr(ord('h') + i) for i in range(nr)]
        elif r < 0.31 and nr <= 26:
            rows = case_pairs(nr, 'a' if nr > 20 else 'p')
        elif r < 0.35:
            # labels that differ only in surrounding blanks: 'k', 'k ', ' k', ' k ', 'l', ...
            rows = [(' ' if i % 4 >= 2 else '') + chr(ord('k') + (i // 4) % 15) + ('' if i // 60 == 0 else str(i // 60)) + (' ' if i % 2 else '') for i in range(nr)]
        elif r < 0.37 and 2 <= nr <= 26:
            # the default letters, in another order (row 'A' is not the first row)
            rows = [chr(ord('A') + i) for i in range(nr)]
            rows = rows[::-1] if rng.random() < 0.5 else rows[1:] + rows[:1]
        r = rng.random()
        if r < 0.06 and nc <= 26:
            cols = case_pairs(nc, 'a' if nc > 10 else 'u')
        elif r < 0.25:
            cols = [f"c{j}" for j in range(1, nc + 1)]
        elif rng.random() < 0.2:
            # digit-only labels that do not coincide with positions (offset or reversed numbering)
            cols = [str(j) for j in (range(0, nc) if rng.random() < 0.5 else range(nc, 0, -1))]
            if rng.random() < 0.3 and isinstance(rows, int):
                rows = [str(i) for i in range(nr + 1, 1, -1)]
        cap = fmt_quantity(rng, round_sig(rng, self.volume_scale() * rng.uniform(0.5, 3), True), 'L')
        return {'op': 'new_plate', 'name': name, 'cap': cap, 'rows': rows, 'cols': cols}

    # ---- operand choice (overridden by the recipe generator, whose state lives in the eager reference)
    def names(self, kind):
        return self.W.names(kind)

    def n_versions(self, name):
        return len(self.W.reg[name])

    def resolved_version(self, name, ver):
        return self.W.resolve(name, ver)[1]

    def latest_model(self, name, ver):
        obj, v = self.W.resolve(name, ver)
        return self.W.alpha(obj), obj

    def pick(self, kind, nonempty=None):
        rng = self.rng
        names = self.names(kind)
        if kind == 'plate' and self.only_plate is not None and self.only_plate in names:
            names = [self.only_plate]
        if not names:
            return None
        name = rng.choice(names)
        n_ver = self.n_versions(name)
        if n_ver > 1 and rng.random() < self.p.get('stale_p', 0.15):
            ver = rng.randrange(n_ver)
        else:
            ver = -1
        return name, ver

    def nonempty_cells(self, mp):
        return [c for c in mp.all_cells() if any(a > 0 for a in mp.well(c).contents.values())]

    def next_event(self):
        rng = self.rng
        w = self.p['op_w']
        ops = list(w)
        if self.pending:
            return self.pending.pop(0)
        if self.mirror is not None and rng.random() < 0.3:
            ev = self.mirrored_event()
            if ev is not None:
                return ev
        for _ in range(20):
            op = rng.choices(ops, weights=[w[o] for o in ops])[0]
            ev = getattr(self, 'gen_' + op)()
            if ev is not None:
                if self.b.cache_policy == 'random' and rng.random() < 0.3:
                    ev['cc'] = 1
                self.maybe_dilute_stock(ev)
                return self.maybe_hold(ev)
        return self.ev_new_container()

    def maybe_dilute_stock(self, ev):
        """Make a stock, then dilute it ten-, hundred-, thousand-fold: the target is the stock's nominal concentration with
        the decimal point moved, in the same spelling."""
        rng = self.rng
        if ev.get('op') != 'solution' or len(ev.get('solutes', ())) != 1 or rng.random() >= self.p.get('p_dilute_stock', 0.3):
            return
        conc = ev.get('kwargs', {}).get('concentration')
        solvent = ev.get('solvent')
        if not isinstance(conc, str) or not isinstance(solvent, str) or self.W.msubs[ev['solutes'][0]].is_enzyme:
            return
        value, _, units = conc.partition(' ')
        try:
            v = F(value) / 10 ** rng.choice([1, 2, 3, 3, 3, 6])
        except (ValueError, ZeroDivisionError):
            return
        if v <= 0 or float(v) < float(self.p.get('min_conc_base', 0)):
            return
        self.pending.append({'op': 'dilute', 'tgt': [ev['name'], -1], 'solute': ev['solutes'][0], 'conc': f"{dec(v, 12)} {units}",
                             'solvent': solvent, 'obs': rng.randrange(1 << 30)})

    def maybe_hold(self, ev):
        """Sometimes the user keeps the slice in a variable, looks at it, and then uses that object (once or twice) instead
        of writing plate[...] inside the call."""
        rng = self.rng
        if ev.get('op') not in ('transfer', 'remove', 'fill_to'):
            return ev
        refs = [f for f in ('src', 'dst', 'tgt') if isinstance(ev.get(f), list) and len(ev[f]) == 3 and ev[f][2] is not None
                and ev[f][2].get('k') != 'all']
        subs = [f for f in refs if ev[f][2].get('k') == 'sub']
        if not refs or rng.random() >= (0.5 if subs else self.p.get('p_hold_use', 0.12)):
            return ev
        f = rng.choice(subs or refs)
        name, ver, sel = ev[f]
        held_sel = sel['base'] if sel.get('k') == 'sub' else sel
        self.n_hold += 1
        hid = self.n_hold
        reads = [r for r in ('get', 'shape', 'volumes', 'substances', 'repr') if rng.random() < 0.4]
        hold = {'op': 'hold_slice', 'tgt': [name, self.resolved_version(name, ver), held_sel], 'hid': hid, 'read': reads}
        use = dict(ev)
        use[f] = [name, self.resolved_version(name, ver), sel, {'held': hid}]
        self.pending.append(use)
        if rng.random() < 0.4:
            again = dict(use, obs=rng.randrange(1 << 30))
            self.pending.append(again)          # the same object used a second time: same plate value, same outcome
        return hold

    def gen_new_container(self):
        if self.n_cont >= 8:
            return None
        return self.ev_new_container()

    def gen_drain_fresh(self):
        """A freshly made vessel whose contents are all stated in one unit class with round numbers, emptied completely by a
        request for exactly their sum in that unit (0.7 mmol + 0.1 mmol -> '0.8 mmol').  The model demands acceptance of such a
        whole-content request only for fresh vessels and representable totals; this op produces exactly that regime, so that
        it is met often enough to be judged (under every storage configuration in C18)."""
        rng = self.rng
        if self.n_cont >= 14:
            return None
        names = self.subs_of()
        cls = rng.choice(['mol', 'mol', 'g', 'L'])
        cand = [n for n in names if not self.W.msubs[n].is_enzyme]
        if len(cand) < 2:
            return None
        chosen = rng.sample(cand, rng.choice([2, 2, 3]) if len(cand) >= 3 else 2)
        scale = self.volume_scale()
        name = f"V{self.n_cont}"
        self.n_cont += 1
        contents, total = [], F(0)
        # one prefix for every portion, few digits: the sum is a short decimal in that prefix
        first = self.W.msubs[chosen[0]]
        ref = float(first.amount_from(F(repr(scale * rng.uniform(0.05, 0.5))), 'L') * first.per_amount(cls))
        table = {'L': VOL_PREFIXES, 'g': MASS_PREFIXES, 'mol': MOL_PREFIXES}[cls]
        good = [p for p in table if 0.05 <= ref / float(M.PREFIXES[p]) < 500]
        if not good:
            return None
        p = rng.choice(good)
        for n in chosen:
            v = F(rng.choice([1, 2, 3, 5, 7, 9, 11, 13])) * F(1, 10) ** rng.choice([0, 1, 1])
            v = v * F(rng.choice([1, 1, 10]))
            contents.append([n, f"{dec(v, 8)} {p}{cls}"])
            total += v
        dst = None
        for n in self.names('container'):
            m, _ = self.latest_model(n, -1)
            if m.cap is None and n != name:
                dst = n
                break
        if dst is None:
            dst = f"V{self.n_cont}"
            self.n_cont += 1
            self.pending.append({'op': 'new_container', 'name': dst, 'cap': None, 'contents': [], 'obs': rng.randrange(1 << 30)})
        self.pending.append({'op': 'transfer', 'src': [name, -1], 'dst': [dst, -1], 'q': f"{dec(total, 12)} {p}{cls}", 'obs': rng.randrange(1 << 30)})
        self.b.stats['probe:fresh_vessel_drained_exactly'] += 1
        return {'op': 'new_container', 'name': name, 'cap': None, 'contents': contents, 'obs': rng.randrange(1 << 30)}

    def gen_series(self):
        """A concentration series at constant volume: along one row, well i gets a share f_i of a volume V from one vessel and
        the rest from another, so every well holds the same substances at the same volume in different proportions; then the
        row is filled to a common amount by moles or by mass (each well needs another top-up)."""
        rng = self.rng
        mdl = self.W.model
        plates = [n for n in self.names('plate')]
        conts = []
        for n in self.names('container'):
            m, _ = self.latest_model(n, -1)
            try:
                if mdl.volume(m) > 0 and mdl.total(m, 'mol') > 0:
                    conts.append((n, m))
            except Exception:
                pass
        if not plates or len(conts) < 2:
            return None
        pn = rng.choice(plates)
        mp, _ = self.latest_model(pn, -1)
        nr, nc = mp.shape
        if nc < 2:
            return None
        r = rng.randrange(nr)
        cols = [c for c in range(nc) if not any(a > 0 for a in mp.well((r, c)).contents.values())][:4]
        if len(cols) < 2 or cols != list(range(cols[0], cols[0] + len(cols))):
            return None
        (xn, xm), (yn, ym) = rng.sample(conts, 2)
        cap = mp.well((r, cols[0])).cap
        n = len(cols)
        vmax = min(mdl.volume(xm), mdl.volume(ym)) / (2 * n)
        if cap is not None:
            vmax = min(vmax, cap * F(3, 10))
        if vmax <= 0:
            return None
        V = round_sig(rng, float(vmax) * rng.uniform(0.3, 0.9), True)
        if V <= 0 or V > vmax:
            return None
        fr = [F(2, 10), F(4, 10), F(6, 10), F(8, 10)][:n]
        rng.shuffle(fr)
        evs = []
        for c, f in zip(cols, fr):
            for src, part in ((xn, f * V), (yn, (1 - f) * V)):
                evs.append({'op': 'transfer', 'src': [src, -1], 'dst': [pn, -1, {'k': 'cell', 'r': r + 1, 'c': c + 1, 'form': 'tup'}],
                            'q': fmt_quantity(rng, part, 'L', digits=12), 'obs': rng.randrange(1 << 30)})
        unit = rng.choice(['mol', 'mol', 'g'])
        cx, cy = mdl.total(xm, unit) / mdl.volume(xm), mdl.total(ym, unit) / mdl.volume(ym)
        tots = [f * V * cx + (1 - f) * V * cy for f in fr]
        liquids = self.subs_of(M.LIQUID)
        if not liquids:
            return None
        solvent = rng.choice(liquids)
        ms = self.W.msubs[solvent]
        target = max(tots) * F(repr(round(rng.uniform(1.05, 1.6), 2)))
        added_vol = (target - min(tots)) / ms.per_amount(unit) * ms.per_amount('L')
        if cap is not None and V + added_vol > cap * F(9, 10):
            return None
        sel = {'k': 'rect', 'r': r + 1, 'c': [cols[0] + 1, cols[-1] + 1, None], 'rl': False, 'cl': False}
        evs.append({'op': 'fill_to', 'tgt': [pn, -1, sel], 'solvent': solvent, 'q': fmt_quantity(rng, target, unit, digits=6),
                    'obs': rng.randrange(1 << 30)})
        self.pending.extend(evs[1:])
        self.b.stats['probe:constant_volume_series'] += 1
        return evs[0]

    def gen_new_plate(self):
        if self.n_plate >= 3:
            return None
        return self.ev_new_plate()

    # ---- transfer
    def gen_transfer(self):
        rng = self.rng
        W = self.W
        form = rng.choices(['c>c', 'c>N', 'N>c', '1>N', 'N>1', 'N>N', 'bad'], weights=self.p.get('form_w', [3, 4, 3, 2, 2, 3, 0.3]))[0]
        src_kind = 'container' if form in ('c>c', 'c>N') else 'plate'
        dst_kind = 'container' if form in ('c>c', 'N>c') else 'plate'
        s = self.pick(src_kind)
        d = self.pick(dst_kind)
        if s is None or d is None:
            return None
        ms, sobj = self.latest_model(*s)
        # prefer sources that hold something
        if src_kind == 'container' and not any(a > 0 for a in ms.contents.values()) and rng.random() < 0.85:
            cands = [n for n in self.names('container') if any(a > 0 for a in self.latest_model(n, -1)[0].contents.values())]
            if not cands:
                return None
            s = (rng.choice(cands), -1)
            ms, sobj = self.latest_model(*s)
        if src_kind == 'plate' and not self.nonempty_cells(ms) and rng.random() < 0.85:
            cands = [n for n in self.names('plate') if self.nonempty_cells(self.latest_model(n, -1)[0])]
            if not cands:
                return None
            s = (rng.choice(cands), -1)
            ms, sobj = self.latest_model(*s)
        same_plate = False
        if src_kind == 'plate' and dst_kind == 'plate' and rng.random() < self.p.get('same_plate_p', 0.3):
            d = s
            same_plate = True
        sv = self.resolved_version(*s)
        dv = self.resolved_version(*d)
        if s[0] == d[0] and sv == dv:
            if src_kind == 'container':
                # a container into itself is a known finding (DESIGN §6); only emitted when asked for
                if not self.p.get('allow_known'):
                    others = [n for n in self.names('container') if n != s[0]]
                    if not others:
                        return None
                    d = (rng.choice(others), -1)
            else:
                same_plate = True
        md, dobj = self.latest_model(*d)
        if same_plate:
            md = ms
        ssel = dsel = None
        scells = dcells = None
        if src_kind == 'plate':
            sshape = ms.shape
        if dst_kind == 'plate':
            dshape = md.shape
        # selectors by form
        if form == 'c>N':
            dsel = self.maybe_sub(gen_selector(rng, dshape, allow_list=self.p.get('list_w', 1)), dshape)
        elif form == 'N>c':
            ssel = self.maybe_sub(self.sel_biased_nonempty(ms, allow_list=self.p.get('list_w', 1)), sshape)
        elif form == '1>N':
            ne = self.nonempty_cells(ms)
            if ne and rng.random() < 0.9:
                r, c = rng.choice(ne)
                ssel = {'k': 'cell', 'r': r + 1, 'c': c + 1, 'form': rng.choice(['str', 'tup', 'lab'])}
            else:
                ssel = gen_selector(rng, sshape, 'cell')
            if rng.random() < 0.1 and min(sshape) >= 1:
                # the one source well written as a slice of a slice
                r, c = ssel['r'], ssel['c']
                r1, c1 = min(sshape[0], r + rng.randint(0, 1)), min(sshape[1], c + rng.randint(0, 1))
                if (r1, c1) != (r, c):
                    ssel = {'k': 'sub', 'base': {'k': 'rect', 'r': [r, r1, None], 'c': [c, c1, None], 'rl': False, 'cl': False},
                            'sub': [[0, 1], [0, 1]]}
            dsel = self.maybe_sub(gen_selector(rng, dshape, allow_list=self.p.get('list_w', 1)), dshape)
            if ssel.get('k') == 'cell' and rng.random() < self.p.get('p_known_region', 0.05):
                # the one source well written as a one-element list (at present such a call raises: known finding; if a
                # library version accepts it, the result is judged like any other one-to-many transfer)
                ssel = {'k': 'list', 'cells': [[ssel['r'], ssel['c']]], 'forms': [rng.choice(['str', 'tup', 'lab'])]}
        elif form == 'N>1':
            ssel = self.maybe_sub(self.sel_biased_nonempty(ms, allow_list=self.p.get('list_w', 1)), sshape)
            dsel = gen_selector(rng, dshape, 'cell')
        elif form == 'N>N':
            h = rng.randint(1, min(sshape[0], dshape[0]))
            w = rng.randint(1, min(sshape[1], dshape[1]))
            if h * w == 1 and min(sshape[0], dshape[0]) * min(sshape[1], dshape[1]) > 1:
                if min(sshape[1], dshape[1]) > 1:
                    w = 2
                else:
                    h = 2
            ssel = gen_selector(rng, sshape, (h, w))
            dsel = gen_selector(rng, dshape, (h, w))
            if rng.random() < self.p.get('p_known_region', 0.05) and min(sshape[0] * sshape[1], dshape[0] * dshape[1]) >= 2:
                # element-wise between two lists of wells of equal length (known-finding region, see above)
                n = rng.randint(2, min(4, sshape[0] * sshape[1], dshape[0] * dshape[1]))
                sc = rng.sample([(r, c) for r in range(1, sshape[0] + 1) for c in range(1, sshape[1] + 1)], n)
                dc = rng.sample([(r, c) for r in range(1, dshape[0] + 1) for c in range(1, dshape[1] + 1)], n)
                ssel = {'k': 'list', 'cells': [list(x) for x in sc], 'forms': [rng.choice(['str', 'tup', 'lab']) for _ in sc]}
                dsel = {'k': 'list', 'cells': [list(x) for x in dc], 'forms': [rng.choice(['str', 'tup', 'lab']) for _ in dc]}
        elif form == 'bad':
            ssel = gen_selector(rng, sshape)
            dsel = gen_selector(rng, dshape)
            hm, wm = min(sshape[0], dshape[0]), min(sshape[1], dshape[1])
            if rng.random() < 0.5 and hm >= 2 and wm >= 2:
                # shapes that differ but would broadcast against each other (one row against a block of rows of the same
                # width, one column against a block, either way round): not a documented pairing - if a library version
                # accepts it, material must still be conserved and unaddressed wells untouched
                h, w = rng.randint(2, hm), rng.randint(2, wm)
                a, b = rng.choice([((1, w), (h, w)), ((h, 1), (h, w)), ((h, w), (1, w)), ((h, w), (h, 1))])
                ssel = gen_selector(rng, sshape, a)
                dsel = gen_selector(rng, dshape, b)
                self.b.stats['probe:broadcastable_mismatch'] += 1
        if ssel is not None:
            try:
                scells, _ = M.select(ssel, ms.shape)
            except M.Refuse:
                return None
        if dsel is not None:
            try:
                dcells, _ = M.select(dsel, md.shape)
            except M.Refuse:
                return None
        if same_plate and scells and dcells and set(scells) & set(dcells) and not self.p.get('allow_known'):
            # overlapping regions of one plate: known finding; try to make them disjoint, else give up
            return None
        # source vessels / destination vessels in the model
        svs = [ms] if src_kind == 'container' else [ms.well(c) for c in scells]
        dvs = [md] if dst_kind == 'container' else [md.well(c) for c in dcells]
        unit = self.choose_unit(svs)
        q = self.choose_quantity(svs, dvs, unit, form)
        if q is None:
            return None
        ev = {'op': 'transfer', 'src': [s[0], s[1]] + ([ssel] if src_kind == 'plate' else []),
              'dst': [d[0], d[1]] + ([dsel] if dst_kind == 'plate' else []), 'q': q, 'obs': rng.randrange(1 << 30)}
        return ev

    def maybe_sub(self, sel, shape):
        """Sometimes narrow a rectangular selection to a slice of a slice (only used where the library iterates wells)."""
        rng = self.rng
        if sel.get('k') not in ('rect', 'row') or rng.random() >= self.p.get('p_subslice', 0.1):
            return sel
        cells, sh = M.select(sel, shape)
        if sh is None or sh[0] * sh[1] < 2:
            return sel
        a = rng.randint(0, sh[0] - 1)
        b = rng.randint(a + 1, sh[0])
        c0 = rng.randint(0, sh[1] - 1)
        c1 = rng.randint(c0 + 1, sh[1])
        if (b - a, c1 - c0) == sh:
            return sel
        return {'k': 'sub', 'base': sel, 'sub': [[a, b], [c0, c1]]}

    def sel_biased_nonempty(self, mp, allow_list=False):
        rng = self.rng
        ne = self.nonempty_cells(mp)
        for _ in range(6):
            sel = gen_selector(rng, mp.shape, allow_list=allow_list)
            cells, _ = M.select(sel, mp.shape)
            if not ne or any(c in ne for c in cells) or rng.random() < 0.1:
                return sel
        return sel

    def choose_unit(self, svs):
        rng = self.rng
        has_enz = any(self.W.msubs[n].is_enzyme and a > 0 for v in svs for n, a in v.contents.items())
        has_non = any((not self.W.msubs[n].is_enzyme) and a > 0 for v in svs for n, a in v.contents.items())
        w = dict(self.p.get('unit_w', {'L': 5, 'g': 3, 'mol': 2, 'U': 1}))
        if not has_enz:
            w['U'] = w['U'] * 0.1
        else:
            w['U'] = w['U'] * 2
        if not has_non:
            w['mol'] = w['mol'] * 0.1
        units = list(w)
        return rng.choices(units, weights=[w[u] for u in units])[0]

    def choose_quantity(self, svs, dvs, unit, form):
        """Boundary-biased request.  The boundary is computed approximately here; the model judges exactly."""
        rng = self.rng
        mdl = self.W.model
        n_draw = len(dvs) if form in ('c>N', '1>N') else 1
        n_fill = len(svs) if form in ('N>c', 'N>1') else 1
        Ts = [mdl.total(v, unit) for v in svs]
        Tmin = min(Ts) if Ts else F(0)
        b_src = Tmin / n_draw
        # capacity-side boundary, expressed in the unit of q (aliquot volume = q/T * V)
        b_dst = None
        for i, dv in enumerate(dvs):
            if dv.cap is None:
                continue
            sv = svs[i] if form == 'N>N' else svs[0]
            T, V = mdl.total(sv, unit), mdl.volume(sv)
            if V == 0 or T == 0:
                continue
            free = dv.cap - mdl.volume(dv)
            qmax = free / n_fill * T / V
            b_dst = qmax if b_dst is None else min(b_dst, qmax)
        cls = rng.choices(['far_in', 'near_in', 'exact', 'near_out', 'far_out', 'negative', 'zero', 'whole'],
                          weights=self.p.get('q_w', [10, 1, 0.5, 1, 1, 0.3, 0.3, 1]))[0]
        which = 'src'
        B = b_src
        if b_dst is not None and (b_dst < b_src or rng.random() < 0.3):
            B, which = b_dst, 'dst'
        if B <= 0:
            if cls in ('negative',):
                B = F(1, 1000)
            else:
                # nothing to draw: ask for something small (must be refused) or zero
                val = F(0) if rng.random() < 0.3 else F(repr(self.volume_scale())) * {'L': 1, 'g': 1, 'mol': F(1, 50), 'U': 100}[unit]
                return fmt_quantity(rng, round_sig(rng, float(val), self.round), unit)
        if cls == 'whole' and which == 'src' and n_draw == 1:
            return fmt_quantity(rng, B, unit, digits=16)
        if cls == 'far_in' or cls == 'whole':
            val = round_sig(rng, float(B) * rng.uniform(0.01, 0.9), self.round)
            if val > B:
                val = B / 2
            return fmt_quantity(rng, val, unit)
        near = self.p.get('near_rel', F(1, 10 ** 5))
        if cls == 'near_in':
            return fmt_quantity(rng, B * (1 - near), unit, digits=14)
        if cls == 'exact':
            return fmt_quantity(rng, B, unit, digits=16)
        if cls == 'near_out':
            return fmt_quantity(rng, B * (1 + near), unit, digits=14)
        if cls == 'far_out':
            return fmt_quantity(rng, round_sig(rng, float(B) * rng.uniform(1.2, 20), self.round), unit)
        if cls == 'negative':
            return '-' + fmt_quantity(rng, round_sig(rng, float(B) * rng.uniform(0.01, 0.9), True), unit)
        return fmt_quantity(rng, F(0), unit)

    # ---- remove
    def gen_remove(self):
        rng = self.rng
        kind = rng.choice(['container', 'plate', 'plate'])
        t = self.pick(kind)
        if t is None:
            return None
        m, obj = self.latest_model(*t)
        ref = [t[0], t[1]]
        present = []
        if kind == 'plate':
            sel = self.maybe_sub(self.sel_biased_nonempty(m, allow_list=self.p.get('list_w', 1)), m.shape)
            ref.append(sel)
            cells, _ = M.select(sel, m.shape)
            for c in cells:
                present += list(m.well(c).contents)
        else:
            present = list(m.contents)
        r = rng.random()
        if present and r < 0.55:
            what = rng.choice(sorted(set(present)))
        elif r < 0.85:
            what = rng.choice([M.SOLID, M.LIQUID, M.ENZYME])
        else:
            what = rng.choice(self.subs_of())
        return {'op': 'remove', 'tgt': ref, 'what': what, 'obs': rng.randrange(1 << 30)}

    # ---- fill_to
    def gen_fill_to(self):
        rng = self.rng
        if self.last_fills and rng.random() < self.p.get('p_refill', 0.07):
            # the same fill once more (nothing to add if nothing happened in between)
            ref, solvent, q = rng.choice(self.last_fills[-4:])
            return {'op': 'fill_to', 'tgt': [ref[0], -1] + ref[2:], 'solvent': solvent, 'q': q, 'obs': rng.randrange(1 << 30)}
        kind = rng.choice(['container', 'container', 'plate'])
        t = self.pick(kind)
        if t is None:
            return None
        m, obj = self.latest_model(*t)
        ref = [t[0], t[1]]
        if kind == 'plate':
            sel = self.maybe_sub(gen_selector(rng, m.shape, allow_list=self.p.get('list_w', 1)), m.shape)
            ref.append(sel)
            cells, _ = M.select(sel, m.shape)
            vs = [m.well(c) for c in cells]
        else:
            vs = [m]
        unit = rng.choices(['L', 'g', 'mol', 'U'], weights=[6, 3, 2, 0.2])[0]
        solvents = [n for n in self.subs_of() if not self.W.msubs[n].is_enzyme]
        if rng.random() < 0.05:
            solvents = self.subs_of()
        solvent = rng.choice(solvents)
        mdl = self.W.model
        cur = max((mdl.total(v, unit) for v in vs), default=F(0)) if unit != 'U' else F(0)
        # capacity-side boundary in the unit
        k = self.W.msubs[solvent].per_amount(unit) if unit != 'U' else F(0)
        kv = self.W.msubs[solvent].per_amount('L')
        capb = None
        for v in vs:
            if v.cap is not None and k > 0:
                b = mdl.total(v, unit) + (v.cap - mdl.volume(v)) / kv * k
                capb = b if capb is None else min(capb, b)
        cls = rng.choices(['in', 'below', 'near_below', 'near_above', 'cap_exact', 'cap_near_in', 'cap_near_out', 'cap_out', 'zero', 'negative'],
                          weights=self.p.get('fill_w', [10, 1.5, 0.7, 0.7, 0.7, 0.7, 0.7, 1, 0.2, 0.2]))[0]
        hi = capb if capb is not None else max(cur * 3, F(repr(self.volume_scale())) * (k / kv if kv > 0 and k > 0 else 1))
        if cls == 'in':
            if hi <= cur:
                val = cur * F(3, 2) if cur > 0 else F(repr(self.volume_scale()))
            else:
                val = cur + (hi - cur) * F(repr(round(rng.uniform(0.05, 0.9), 3)))
            val = round_sig(rng, float(val), self.round)
            if val <= cur and cur > 0:
                val = cur * F(11, 10)
        elif cls == 'below':
            val = round_sig(rng, float(cur) * rng.uniform(0.1, 0.9), self.round) if cur > 0 else F(repr(self.volume_scale()))
        elif cls == 'near_below':
            val = cur * (1 - F(1, 10 ** 5))
        elif cls == 'near_above':
            val = cur * (1 + F(1, 10 ** 5))
        elif cls in ('cap_exact', 'cap_near_in', 'cap_near_out', 'cap_out'):
            if capb is None:
                return None
            val = {'cap_exact': capb, 'cap_near_in': capb * (1 - F(1, 10 ** 5)), 'cap_near_out': capb * (1 + F(1, 10 ** 5)),
                   'cap_out': capb * F(repr(round(rng.uniform(1.1, 5), 2)))}[cls]
        elif cls == 'zero':
            val = F(0)
        else:
            val = -max(cur, F(1, 1000))
        if val == 0 and cls not in ('zero',):
            val = F(repr(self.volume_scale()))
        digits = 16 if cls in ('cap_exact',) else 14 if 'near' in cls else 8
        sign = '-' if val < 0 else ''
        q = sign + fmt_quantity(rng, abs(val), unit, digits=digits)
        if cls == 'in':
            self.last_fills.append((list(ref), solvent, q))
        return {'op': 'fill_to', 'tgt': ref, 'solvent': solvent, 'q': q, 'obs': rng.randrange(1 << 30)}

    # ---- dilute
    CONC_FORMS = [('mol', 'L', ['M', 'mM', 'mol/L', 'mmol/mL', 'umol/uL', 'umol/10 uL']), ('mol', 'g', ['m', 'mol/kg', 'mmol/g']),
                  ('g', 'L', ['g/L', 'mg/mL', 'ug/uL', '%w/v']), ('g', 'g', ['g/g', 'mg/g', '%w/w']),
                  ('mol', 'mol', ['mol/mol', 'mmol/mol']), ('L', 'L', ['L/L', 'uL/mL', '%v/v']),
                  ('g', 'mol', ['g/mol']), ('L', 'g', ['mL/g']), ('L', 'mol', ['mL/mol'])]

    def fmt_conc(self, value_base: F, units: str, digits=8):
        """Concentration string with the given unit spelling whose base-unit value is value_base."""
        mult, num, den = M.parse_concentration('1 ' + units, self.W.model.wv)
        v = value_base / mult
        if units.startswith('%'):
            return f"{dec(v, digits)}{units}" if False else f"{dec(v, digits)} {units}"
        return f"{dec(v, digits)} {units}"

    def gen_dilute(self):
        rng = self.rng
        W = self.W
        t = self.pick('container')
        if t is None:
            return None
        m, obj = self.latest_model(*t)
        solutes = [n for n, a in m.contents.items() if a > 10 ** 7 * W.q_amt(n) and not W.msubs[n].is_enzyme]
        trace = [n for n, a in m.contents.items() if 10 ** 4 * W.q_amt(n) < a <= 10 ** 8 * W.q_amt(n) and not W.msubs[n].is_enzyme]
        if trace and rng.random() < self.p.get('p_trace_solute', 0.5):
            solutes = trace         # a component present in traces only (nanomolar and below)
        if not solutes:
            if rng.random() < 0.9:
                return None
            solutes = [n for n in self.subs_of() if not W.msubs[n].is_enzyme]
        solute = rng.choice(solutes)
        solvents = [n for n in self.subs_of() if not W.msubs[n].is_enzyme and n != solute]
        if not solvents:
            return None
        # bias: solvent already present / absent
        present = [n for n in solvents if m.contents.get(n, 0) > 0]
        solvent = rng.choice(present) if present and rng.random() < 0.6 else rng.choice(solvents)
        num, den, spellings = rng.choices(self.CONC_FORMS, weights=self.p.get('conc_w', [6, 3, 3, 3, 2, 2, 0.5, 0.5, 0.5]))[0]
        units = rng.choice(spellings)
        cur = W.model.concentration_base(m, solute, num, den)
        if cur is None or cur == 0:
            cur = F(1)
        cls = rng.choices(['lower', 'much_lower', 'higher', 'same', 'cap'], weights=self.p.get('dil_w', [8, 3, 1.5, 0.3, 1]))[0]
        if cls == 'lower':
            c = cur * F(repr(round(rng.uniform(0.2, 0.95), 3)))
        elif cls == 'much_lower' and rng.random() < 0.35:
            # a ten-, hundred-, thousand-fold ... dilution of the nominal (three-digit) concentration: 1 M -> 1 mM
            c = F(format(float(cur), '.3g')) / 10 ** rng.randint(1, 6)
        elif cls == 'much_lower':
            c = cur * F(repr(round(loguniform(rng, 1e-3, 0.2), 5)))
        elif cls == 'higher':
            c = cur * F(repr(round(rng.uniform(1.05, 3), 3)))
        elif cls == 'same':
            c = cur
        else:
            # aim at the capacity boundary if there is one
            if m.cap is None:
                c = cur * F(1, 2)
            else:
                top = W.msubs[solute].per_amount(num) * m.contents.get(solute, F(0))
                free = m.cap - W.model.volume(m)
                k = W.msubs[solvent].per_amount(den)
                kv = W.msubs[solvent].per_amount('L')
                bottom = W.model.total(m, den) + free / kv * k * F(repr(rng.choice([0.5, 0.999, 1.001, 2.0])))
                c = top / bottom if bottom > 0 and top > 0 else cur / 2
        if c <= 0:
            return None
        if c < max(self.p.get('min_conc_base', 0), F(1, 10 ** 9)):
            # configurations with different internal_precision would parse such a target differently; and below ten rounding
            # steps of a parsed concentration (1e-10 base units) a target is not a meaningful request at all
            return None
        conc = self.fmt_conc(c, units, digits=5 if self.round else 9)
        ev = {'op': 'dilute', 'tgt': [t[0], t[1]], 'solute': solute, 'conc': conc, 'solvent': solvent, 'obs': rng.randrange(1 << 30)}
        if rng.random() < (0.6 if cls == 'same' else 0.2):
            self.n_sol += 1
            ev['name'] = f"D{self.n_sol}"
        return ev

    # ---- state builders
    def gen_solution(self):
        rng = self.rng
        W = self.W
        self.n_sol += 1
        name = f"Q{self.n_sol}"
        liquids = self.subs_of(M.LIQUID)
        others = [n for n in self.subs_of()]
        solvent = rng.choice(liquids)
        solutes = [n for n in others if n != solvent]
        if not solutes:
            return None
        ns = 1 if rng.random() < 0.7 else min(2, len(solutes))
        sol = rng.sample(solutes, ns)
        scale = self.volume_scale()
        total = fmt_quantity(rng, round_sig(rng, scale, True), 'L')
        kwargs = {}
        mode = rng.choice(['ct', 'qt', 'cq'])
        enz = any(W.msubs[s].is_enzyme for s in sol)
        concs = []
        quants = []
        for s in sol:
            if W.msubs[s].is_enzyme:
                concs.append(f"{dec(round_sig(rng, loguniform(rng, 0.1, 100), True))} U/mL")
                quants.append(f"{dec(round_sig(rng, scale * 1000 * loguniform(rng, 0.1, 10), True))} U")
            else:
                concs.append(rng.choice([f"{dec(round_sig(rng, loguniform(rng, 0.005, 0.5), True))} M",
                                         f"{dec(round_sig(rng, loguniform(rng, 0.5, 30), True))} mg/mL",
                                         f"{dec(round_sig(rng, loguniform(rng, 0.05, 5), True))} %w/w"]))
                quants.append(fmt_quantity(rng, round_sig(rng, scale * loguniform(rng, 0.005, 0.05) * 1000, True), 'g'))
        if mode == 'ct':
            kwargs = {'concentration': concs if ns > 1 else concs[0], 'total_quantity': total}
        elif mode == 'qt':
            kwargs = {'quantity': quants if ns > 1 else quants[0], 'total_quantity': total}
        else:
            kwargs = {'concentration': concs if ns > 1 else concs[0], 'quantity': quants if ns > 1 else quants[0]}
        solv = solvent
        if rng.random() < self.p.get('p_container_solvent', 0.25):
            t = self.pick('container')
            if t is not None:
                m, _ = self.latest_model(*t)
                trace_only = sum((a for n, a in m.contents.items() if not W.msubs[n].is_enzyme), F(0)) < 10 ** 4 * F(1, 10 ** W.units.p)
                if any(a > 0 and W.msubs[n].kind == M.LIQUID for n, a in m.contents.items()) and \
                        (rng.random() < 0.4 or not any(s in m.contents for s in sol)) and \
                        (not trace_only or self.p.get('allow_known')):      # known finding: its witness exercises that region
                    solv = [t[0], t[1]]
        return {'op': 'solution', 'name': name, 'solutes': sol, 'solvent': solv, 'kwargs': kwargs, 'obs': rng.randrange(1 << 30)}

    def gen_solution_from(self):
        rng = self.rng
        W = self.W
        t = self.pick('container')
        if t is None:
            return None
        m, _ = self.latest_model(*t)
        solutes = [n for n, a in m.contents.items() if a > 0 and not W.msubs[n].is_enzyme and W.msubs[n].kind == M.SOLID]
        liquids = [n for n in self.subs_of(M.LIQUID)]
        if not solutes or not liquids:
            return None
        solute = rng.choice(solutes)
        present = [n for n in liquids if m.contents.get(n, 0) > 0]
        solvent = rng.choice(present or liquids)
        # mostly molar targets and a volume; sometimes another concentration form and a quantity by mass or moles
        num, den, units = ('mol', 'L', 'M')
        qunit = 'L'
        if rng.random() < self.p.get('p_solution_from_forms', 0.3):
            num, den, units = rng.choice([('mol', 'L', 'mM'), ('g', 'L', 'mg/mL'), ('mol', 'g', 'mol/kg'), ('g', 'g', '%w/w'), ('g', 'L', '%w/v')])
            qunit = rng.choice(['L', 'g', 'g', 'mol'])
        cur = W.model.concentration_base(m, solute, num, den)
        if not cur:
            return None
        c = cur * F(repr(round(rng.uniform(0.1, 0.9), 2)))
        if c < max(self.p.get('min_conc_base', 0), F(1, 10 ** 9)):
            return None
        total = W.model.total(m, qunit) * F(repr(round(rng.uniform(0.05, 0.6), 2)))
        if total <= 0:
            return None
        solv = solvent
        if rng.random() < self.p.get('p_container_solvent', 0.25):
            # the solvent comes out of another container (which may hold some of the solute already)
            cand = [n for n in self.names('container') if n != t[0]]
            rng.shuffle(cand)
            for n in cand:
                mm, _ = self.latest_model(n, -1)
                if any(a > 0 and W.msubs[x].kind == M.LIQUID for x, a in mm.contents.items()):
                    solv = [n, -1]
                    break
        self.n_sol += 1
        return {'op': 'solution_from', 'src': [t[0], t[1]], 'solute': solute, 'conc': self.fmt_conc(c, units, digits=6), 'solvent': solv,
                'q': fmt_quantity(rng, total, qunit, digits=6), 'name': f"F{self.n_sol}", 'obs': rng.randrange(1 << 30)}

    def gen_hold_slice(self):
        t = self.pick('plate')
        if t is None:
            return None
        m, _ = self.latest_model(*t)
        sel = gen_selector(self.rng, m.shape)
        if sel['k'] == 'all':
            return None
        return {'op': 'hold_slice', 'tgt': [t[0], t[1], sel]}
