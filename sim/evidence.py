"""Evidence writer: what this run of a check actually covered (EVIDENCE.schema.json)."""
from __future__ import annotations

import json
import os
from collections import Counter

from .env import VERIF_DIR, REPO

LEVEL = {'C04': 'fault_enumeration'}

RULE = {
    'A': ("cases = simulated runs of Engine A: one run is a seeded history (8-40 abstract events: construction, "
          "transfer in all pairing forms, remove, fill_to, dilute, create_solution[_from], stale-version reuse) executed "
          "on the real library and mirrored on the exact reference model; every choice derives from "
          "sha256(VERIF_SEED:property:run). A run is non-trivial if at least two state-changing events succeeded; "
          "distinct = distinct coverage signatures, a signature being the sorted set of event tuples "
          "(op, pairing form, endpoint kinds, same-plate/overlap, unit class, feasibility class, outcome, staleness) of the run. "
          "Some runs are followed, inside the same run, by further sessions that the probes count: a second session with the same "
          "substance names and other properties (20 %), the same script under other names (alias, 12 %), the same script without "
          "observer calls (blind, 8 %); their violations count for the run."),
}

COMPONENTS = {
    'real_code': ['pyplate.Unit', 'pyplate.Substance', 'pyplate.Container', 'pyplate.Plate', 'pyplate.PlateSlicer',
                  'pyplate.slicer.Slicer', 'pyplate.Recipe', 'pyplate.Config (real YAML loader through PYPLATE_CONFIG)',
                  'numpy', 'pandas', 'yaml'],
    'harness_owned': ['exact reference model (fractions.Fraction)', 'selector model', 'fingerprints', 'seeded generators',
                      'sys.settrace fault injector', 'deepcopy pass-through wrapper', 'scratch config directory'],
    'stubs_of_pyplate_code': [],
}


def validate(doc):
    """Light structural validation (jsonschema is not installed in /venv); full validation if it is importable."""
    for k in ('property_id', 'tier', 'seed', 'level', 'coverage', 'wall_s'):
        assert k in doc, k
    cov = doc['coverage']
    if doc['level'] in ('exploration', 'fault_enumeration'):
        assert isinstance(cov['evaluations'], int) and cov['evaluations'] >= 1
        assert isinstance(cov['distinct_nontrivial'], int) and cov['distinct_nontrivial'] >= 2, cov['distinct_nontrivial']
        assert isinstance(cov['rule'], str)
        assert isinstance(cov['samples'], list) and len(cov['samples']) >= 1
    try:
        import jsonschema  # noqa
        with open('/root/.vp/EVIDENCE.schema.json') as fh:
            jsonschema.validate(doc, json.load(fh))
    except ImportError:
        pass
    except FileNotFoundError:
        pass


def write(prop, tier, seed, results, wall, wall_batch, n_violation_keys, known, known_lines, path, eng, extra=None):
    stats = Counter()
    sigs = set()
    event_kinds = set()
    n_nontrivial = 0
    max_ratio = {}
    allow = {}
    other = Counter()
    kn = Counter()
    for r in results:
        stats.update(r.get('stats', {}))
        other.update(r.get('other', {}))
        kn.update(r.get('known', {}))
        event_kinds.update(r['sig'])
        if r.get('nontrivial'):
            n_nontrivial += 1
            sigs.add(tuple(r['sig']))
        for k, v in r.get('max_ratio', {}).items():
            max_ratio[k] = max(max_ratio.get(k, 0.0), v)
        for k, v in r.get('allowances', {}).items():
            allow[k] = max(allow.get(k, 0.0), v)
    n_events = sum(r['n_events'] for r in results)
    samples = []
    for r in results:
        if 'record' in r and len(samples) < 3:
            rec = r['record']
            samples.append({'run': rec.get('run'), 'subs': rec.get('subs'), 'profile': rec.get('profile'),
                            'events': rec.get('events', rec.get('calls', []))[:30]})
    probes = {k: v for k, v in sorted(stats.items()) if k.startswith('probe:')}
    faults = {k: v for k, v in sorted(stats.items()) if k.startswith('fault:')}
    decisions = {k: v for k, v in sorted(stats.items()) if k.startswith('decision:')}
    obs = {k: v for k, v in sorted(stats.items()) if k.startswith(('obs:', 'instr:'))}
    unjudged = {k: v for k, v in sorted(stats.items()) if not k.startswith(('obs:', 'instr:', 'probe:', 'fault:', 'decision:', 'enum:'))}
    zero_probes = [k for k in getattr(eng, 'expected_probes', lambda p: [])(prop) if not stats.get(k)]
    hours = max(wall_batch, 1e-9) / 3600.0
    doc = {
        'property_id': prop,
        'tier': tier,
        'seed': seed,
        'level': LEVEL.get(prop, 'exploration'),
        'coverage': {
            'evaluations': len(results),
            'distinct_nontrivial': len(sigs),
            'nontrivial_runs': n_nontrivial,
            'rule': getattr(eng, 'rule', lambda p: RULE['A'])(prop),
            'samples': samples,
            'events_executed': n_events,
            'distinct_event_kinds': len(event_kinds),
            'runs_per_hour': round(len(results) / hours),
            'seeds_per_hour': round(len(results) / hours),
            'events_per_hour': round(n_events / hours),
            'simulated_time': f"n/a - the library has no clock; logical time = event index ({n_events} events in total)",
            'fault_kinds_fired': faults,
            'probes_hit': probes,
            'probes_stuck_at_zero': zero_probes,
            'decisions': decisions,
            'observer_calls': obs,
            'other_counters': unjudged,
            'calibration_max_error_over_tolerance': {k: round(v, 6) for k, v in sorted(max_ratio.items())},
            'largest_allowances_granted': allow,
            'violations_of_other_properties_seen_and_ignored_here': dict(other),
            'events_excused_by_known_finding': dict(kn),
            'known_findings_reported': known_lines,
            'excluded_regions': [f"{f['id']}: {f['trigger']}" for f in known.findings.values()],
            'components': COMPONENTS,
            'repo': REPO,
            'hashseed': os.environ.get('PYTHONHASHSEED'),
        },
        'assumptions': [
            'seeded sampling: a clean batch is evidence, not proof; nothing is claimed outside the workload bounds of DESIGN.md section 3',
            'the reference model encodes the documented semantics (DESIGN.md appendix A)',
            'numerical comparisons use the tolerances of DESIGN.md section 3',
        ],
        'wall_s': round(wall, 2),
        'violations': n_violation_keys,
    }
    if extra:
        doc['coverage'].update(extra)
    validate(doc)
    os.makedirs(os.path.dirname(path), exist_ok=True)
    tmp = path + '.tmp'
    with open(tmp, 'w') as fh:
        json.dump(doc, fh, indent=1, sort_keys=True, default=str)
    os.replace(tmp, path)
    return doc
