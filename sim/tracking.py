"""Ledger oracles for the usage-tracking API of a baked recipe: C09 (get_substance_used), C15 (get_container_flows,
get_amount_remaining), C17 recipe part (discarded amounts).  Expectations come from the simulator's own record
(model snapshots of the eager reference at every step boundary), never from Recipe internals."""
from __future__ import annotations

import random
from fractions import Fraction as F

import numpy

from . import model as M

SUB_UNITS = ['umol', 'mmol', 'mol', 'nmol', 'mg', 'g', 'ug', 'uL', 'mL', 'L']
ENZ_UNITS = ['U', 'U', 'mU', 'kU', 'mg', 'g', 'uL', 'mL']
FLOW_UNITS = ['uL', 'mL', 'L', 'mg', 'g', 'umol', 'mmol', 'U']


def stages_of(run):
    """Timeframes the simulator knows: name -> (start, end) in accepted-step indices."""
    n = len(run.steps)
    st = {'all': (0, n)}
    for name, (a, b) in run.lc.stages.items():
        if name != 'all':
            st[name] = (a, b)
    return st


def amount_in(run, mobj, sname):
    if mobj is None:
        return F(0)
    if isinstance(mobj, M.MPlate):
        return sum((mobj.well(c).contents.get(sname, F(0)) for c in mobj.all_cells()), F(0))
    return mobj.contents.get(sname, F(0))


def total_of(run, mv, base_unit):
    return mv.total(run.W.msubs, base_unit) if mv is not None else F(0)


def round_tol(d):
    return F(1, 2 * 10 ** d)


def n_wells(mobj):
    return len(mobj.all_cells()) if isinstance(mobj, M.MPlate) else 1


# --------------------------------------------------------------------------- C09

def expected_used(run, sname, a, b, dests):
    """Net gain of the destinations over steps [a, b) + what remove steps discarded in [a, b) (amount units)."""
    before, after = run.snap[a], run.snap[b]
    tot = F(0)
    for d in dests:
        tot += amount_in(run, after.get(d), sname) - amount_in(run, before.get(d), sname)
    trash = F(0)
    for st in run.steps[a:b]:
        trash += st['trash'].get(sname, F(0))
    return tot + trash, trash


def user_object(run, name, prefer_result):
    """The object a user passes to a tracking query: the one they declared / got from create_*, or the baked result
    (only if it still carries the name it is known by - dilute(new_name=...) renames the result)."""
    h = run.handles.get(name)
    r = (run.baked or {}).get(name)
    if prefer_result and r is not None and getattr(r, 'name', None) == name and (h is None or type(r) is type(h)):
        return r            # (a result of another kind than the declared object is reported by the bake check, not here)
    return h if h is not None else r


def gen_used_query(run, rng):
    W = run.W
    stages = stages_of(run)
    names = sorted(W.msubs)
    used_names = sorted(set().union(*[s['uses'] for s in run.steps])) if run.steps else []
    sname = rng.choice(names)
    ms = W.msubs[sname]
    q = {'c': 'q_used', 'sub': sname, 'tf': rng.choice(sorted(stages)),
         'unit': None if rng.random() < 0.2 else rng.choice(ENZ_UNITS if ms.is_enzyme else SUB_UNITS)}
    if rng.random() < 0.45 or not used_names:
        q['dests'] = 'plates'
    else:
        q['dest_form'] = rng.choice(['list', 'list', 'tuple', 'iter', 'gen', 'dict_keys'])
        q['dests'] = rng.sample(used_names, rng.randint(1, min(3, len(used_names))))
        # bias: include the source side of some step (solvent containers, stocks) among the destinations
        srcs = sorted(set(x for st in run.steps for x in (st.get('frm'), st.get('solvent_obj')) if x))
        if srcs and rng.random() < 0.5:
            x = rng.choice(srcs)
            if x not in q['dests']:
                q['dests'].append(x)
    q['explicit'] = [rng.random() < 0.5, rng.random() < 0.3]
    q['pass_result'] = rng.random() < 0.5
    return q


def q_used(run, c):
    W, R = run.W, run.recipe
    u = W.units
    stages = stages_of(run)
    sname, tf, unit = c['sub'], c['tf'], c.get('unit')
    if tf not in stages or sname not in W.msubs:
        return
    ms = W.msubs[sname]
    a, b = stages[tf]
    plates = [n for n in run.lc.declared if isinstance(run.baked.get(n), run.rep.Plate)]
    if c.get('dests', 'plates') == 'plates':
        dests, dest_arg = plates, "plates"
    else:
        dests = [n for n in c['dests'] if n in run.baked or n in run.handles]
        if not dests:
            return
        dest_arg = [user_object(run, n, c.get('pass_result', False)) for n in dests]
    kid = run.scoped_excuse(('C09',), dests)
    exp, trash = expected_used(run, sname, a, b, dests)
    uu = unit or ('U' if ms.is_enzyme else u.cfg['moles_display_unit'])
    mult, base = M.split_unit(uu)
    k = ms.per_amount(base)
    kw = {}
    ex = c.get('explicit', [True, True])
    if unit is not None:
        kw['unit'] = unit
    if tf != 'all' or ex[0]:
        kw['timeframe'] = tf
    if dest_arg != "plates" or ex[1]:
        kw['destinations'] = dest_arg
        # the parameter is typed Iterable: a tuple, a one-shot iterator or a generator are as good as a list
        form = c.get('dest_form', 'list')
        if dest_arg != "plates" and form != 'list':
            objs = list(dest_arg)
            kw['destinations'] = {'tuple': lambda: tuple(objs), 'iter': lambda: iter(objs), 'gen': lambda: (o for o in objs),
                                  'dict_keys': lambda: {id(o): o for o in objs}.values()}[form]()
            run.stats['probe:destinations_as_' + form] += 1
    out = run.call(lambda: R.get_substance_used(W.rsubs[sname], **kw))
    run.stats['obs:get_substance_used'] += 1
    nsteps = b - a
    wells = sum(n_wells(run.snap[b].get(d)) for d in dests) or 1
    magnitude = sum((abs(amount_in(run, run.snap[a].get(dn), sname)) + abs(amount_in(run, run.snap[b].get(dn), sname)) for dn in dests), F(0))
    tol_amt = 4 * W.q_amt(sname) * (wells + nsteps + 2) + abs(exp) * F(1, 10 ** 11) + magnitude * F(wells + nsteps + 2, 10 ** 15) \
        + run.noise_amt(sname) * (nsteps + 1)
    key = ('get_substance_used', 'plates' if dest_arg == "plates" else 'subset', tf == 'all', base)
    run.sig.add(('q_used', key[1], key[2], base, out[0], exp > tol_amt, exp < -tol_amt, trash > 0))
    desc = f"get_substance_used({sname}, timeframe={tf!r}, unit={uu!r}, destinations={dests if dest_arg != 'plates' else 'plates'})"
    if exp < -tol_amt:
        if out[0] == 'ok':
            run.V('C09', 'net_decrease_not_refused', key, f"{desc}: net change {float(exp):.9g} (a decrease) but {out[1]!r} was returned", kid)
        elif out[0] != 'ValueError':
            run.V('C09', 'net_decrease_wrong_exception', key + (out[0],), f"{desc}: net decrease raised {out[0]}: {out[1]}", kid)
        else:
            run.stats['probe:used_net_decrease_refused'] += 1
        return
    if abs(exp) <= tol_amt and out[0] == 'ValueError':
        return
    if out[0] != 'ok':
        run.V('C09', 'query_raised', key + (out[0],), f"{desc} raised {out[0]}: {str(out[1])[:160]} (ledger: {float(exp):.9g})", kid)
        return
    d = u.precision(uu)
    expv = exp * k / mult
    tol = round_tol(d) + tol_amt * k / mult
    err = abs(F(float(out[1])) - expv)
    if not kid:   # calibration numbers describe judged answers only, not those a known finding excuses
        run.bench.note_ratio('substance_used', err, tol)
    if err > tol:
        run.V('C09', 'amount', key, f"{desc} = {out[1]!r}, ledger says {float(expv):.9g} (of which discarded {float(trash * k / mult):.9g})", kid)
    elif exp > tol_amt:
        run.stats['probe:used_positive_checked'] += 1
    if trash > 0:
        run.stats['probe:used_with_discard'] += 1


def q_additivity(run, c):
    """Amounts over consecutive stages add up to the amount over their union (statement, last sentence)."""
    W, R = run.W, run.recipe
    u = W.units
    stages = stages_of(run)
    plates = [n for n in run.lc.declared if isinstance(run.baked.get(n), run.rep.Plate)]
    kid = run.scoped_excuse(('C09',), plates)
    named = sorted((v, k) for k, v in stages.items() if k != 'all')
    sname = c['sub']
    if sname not in W.msubs or len(named) < 2 or not plates:
        return
    ms = W.msubs[sname]
    uu = c['unit']
    mult, base = M.split_unit(uu)
    if ms.per_amount(base) == 0:
        return
    for i in range(len(named) - 1):
        (a1, b1), n1 = named[i]
        (a2, b2), n2 = named[i + 1]
        if b1 != a2:
            continue
        o1 = run.call(lambda: R.get_substance_used(W.rsubs[sname], timeframe=n1, unit=uu))
        o2 = run.call(lambda: R.get_substance_used(W.rsubs[sname], timeframe=n2, unit=uu))
        if o1[0] != 'ok' or o2[0] != 'ok':
            continue
        exp, _ = expected_used(run, sname, a1, b2, plates)
        expv = exp * ms.per_amount(base) / mult
        d = u.precision(uu)
        tol = 3 * round_tol(d) + 8 * W.q_amt(sname) * (b2 - a1 + 4) * ms.per_amount(base) / mult * sum(n_wells(run.snap[b2].get(p)) for p in plates)
        got = F(float(o1[1])) + F(float(o2[1]))
        run.stats['probe:stage_additivity_checked'] += 1
        if abs(got - expv) > tol:
            run.V('C09', 'stage_additivity', ('get_substance_used', base),
                  f"{sname}: stage {n1!r} ({o1[1]}) + stage {n2!r} ({o2[1]}) != amount over their union {float(expv):.9g} {uu}", kid)


# --------------------------------------------------------------------------- C15

def roles(run, st, name):
    """Role of object `name` in step st -> list of 'created'|'source'|'destination'|'both'|'topped'|'washed'."""
    k = st['kind']
    if k in ('create_container', 'create_solution', 'create_solution_from'):
        if st['to'] == name:
            return 'created'
        return 'source'            # source of solution_from / solvent container of create_solution
    if k == 'transfer':
        if st['to'] == name and st['frm'] == name:
            return 'both'
        return 'destination' if st['to'] == name else 'source'
    if k in ('dilute', 'fill_to'):
        return 'topped'
    if k == 'remove':
        return 'washed'
    return '?'


def expected_flows(run, name, a, b, base):
    """-> (in, out) per well (list in row-major order) or scalars, from the ledger and the role table (appendix C)."""
    msubs = run.W.msubs
    proto = None
    for i in range(a, b + 1):
        if run.snap[i].get(name) is not None:
            proto = run.snap[i][name]
            break
    if proto is None:
        return None
    plate = isinstance(proto, M.MPlate)
    cells = proto.all_cells() if plate else [None]
    fin = [F(0)] * len(cells)
    fout = [F(0)] * len(cells)

    def tot(snapshot, cell):
        o = snapshot.get(name)
        if o is None:
            return F(0)
        v = o.well(cell) if plate else o
        return v.total(msubs, base)
    touched = False
    for i in range(a, b):
        st = run.steps[i]
        if name not in st['uses']:
            continue
        touched = True
        role = roles(run, st, name)
        for j, cell in enumerate(cells):
            d = tot(run.snap[i + 1], cell) - tot(run.snap[i], cell)
            if role in ('created', 'destination', 'topped'):
                fin[j] += d
            elif role in ('source', 'washed'):
                fout[j] += -d
            elif role == 'both':
                if d > 0:
                    fin[j] += d
                else:
                    fout[j] += -d
    if not touched:
        return None
    return fin, fout, plate, cells


def gen_flows_query(run, rng):
    stages = stages_of(run)
    used_names = sorted(set().union(*[s['uses'] for s in run.steps])) if run.steps else []
    if not used_names:
        return None
    return {'c': 'q_flows', 'obj': rng.choice(used_names), 'tf': rng.choice(sorted(stages)), 'unit': rng.choice(FLOW_UNITS),
            'explicit': rng.random() < 0.5, 'pass_result': rng.random() < 0.5}


def q_flows(run, c):
    W, R = run.W, run.recipe
    u = W.units
    stages = stages_of(run)
    kid = run.scoped_excuse(('C15',), [c['obj']])
    rng = None
    for _ in range(1):
        name, tf, unit = c['obj'], c['tf'], c['unit']
        if tf not in stages or (name not in run.baked and name not in run.handles):
            return
        obj = user_object(run, name, c.get('pass_result', False))
        a, b = stages[tf]
        mult, base = M.split_unit(unit)
        d = u.precision(unit)
        exp = expected_flows(run, name, a, b, base)
        plate = isinstance(obj, run.rep.Plate)
        kind = 'plate' if plate else 'container'
        kw = {'unit': unit}
        if tf != 'all' or c.get('explicit'):
            kw['timeframe'] = tf
        # ---- flows
        out = run.call(lambda: R.get_container_flows(obj, **kw))
        run.stats['obs:get_container_flows'] += 1
        key = ('get_container_flows', kind, base)
        first = last = None
        for i in range(a, b):
            if name in run.steps[i]['uses']:
                first = i if first is None else first
                last = i
        run.sig.add(('q_flows', kind, base, tf == 'all', out[0], exp is not None))
        nsub = len(W.msubs)
        if exp is None:
            # not used in the timeframe: the property does not speak; only require that nothing blows up differently
            continue
        fin, fout, _, cells = exp
        tol_amt = sum((W.q_amt(n) * W.msubs[n].per_amount(base) for n in W.msubs), F(0)) * 8 * (b - a + 2) \
            + sum((run.noise_amt(n) * W.msubs[n].per_amount(base) for n in W.msubs), F(0)) * (b - a + 1)
        if out[0] != 'ok':
            run.V('C15', 'flows_raised', key + (out[0],), f"get_container_flows({name}, {kw}) raised {out[0]}: {out[1]}", kid)
        else:
            flows = out[1]
            ok_shape = isinstance(flows, dict) and set(flows) == {'in', 'out'}
            if not ok_shape:
                run.V('C15', 'flows_shape', key, f"get_container_flows returned {flows!r}", kid)
            else:
                for which, expl in (('in', fin), ('out', fout)):
                    got = flows[which]
                    if plate:
                        arr = numpy.asarray(got, dtype=float)
                        if arr.shape != (len(set(c[0] for c in cells)), len(set(c[1] for c in cells))):
                            run.V('C15', 'flows_shape', key + (which,), f"{which} has shape {arr.shape} for plate {name}", kid)
                            continue
                        vals = [arr[c] for c in cells]
                    else:
                        if isinstance(got, numpy.ndarray):
                            run.V('C15', 'flows_shape', key + (which,), f"{which} is an array for container {name}", kid)
                            continue
                        vals = [got]
                    for j, (gv, ev_) in enumerate(zip(vals, expl)):
                        evv = ev_ / mult
                        tol = round_tol(d) + tol_amt / mult + abs(evv) * F(1, 10 ** 10)
                        gvf = F(float(gv))
                        if gvf < -tol:
                            run.V('C15', 'negative_flow', key + (which,), f"{name} {which}[{j}] = {gv!r} over {tf!r}", kid)
                            break
                        if abs(gvf - evv) > tol:
                            run.V('C15', 'flow_amount', key + (which, roles_in(run, name, a, b)),
                                  f"get_container_flows({name}, timeframe={tf!r}, unit={unit!r})[{which!r}]{'[' + str(cells[j]) + ']' if plate else ''} = {gv!r}, ledger says {float(evv):.9g}", kid)
                            break
                    else:
                        run.stats['probe:flow_checked'] += 1
        # ---- amount remaining, before and after
        for mode in ('before', 'after'):
            out = run.call(lambda: R.get_amount_remaining(obj, timeframe=tf, unit=unit, mode=mode))
            run.stats['obs:get_amount_remaining'] += 1
            key2 = ('get_amount_remaining', kind, base, mode)
            snap = run.snap[first] if mode == 'before' else run.snap[last + 1]
            mo = snap.get(name)
            if out[0] != 'ok':
                run.V('C15', 'remaining_raised', key2 + (out[0],), f"get_amount_remaining({name}, {tf!r}, {unit!r}, {mode!r}) raised {out[0]}: {out[1]}", kid)
                continue
            got = out[1]
            if got is None:
                run.V('C15', 'remaining_none', key2, f"get_amount_remaining({name}, {tf!r}) returned None although step {first} uses it", kid)
                continue
            if plate:
                arr = numpy.asarray(got)
                if arr.shape != (len(set(c[0] for c in cells)), len(set(c[1] for c in cells))):
                    run.V('C15', 'remaining_shape', key2, f"shape {arr.shape}", kid)
                    continue
                vals = [arr[c] for c in cells]
                exps = [(mo.well(c).total(W.msubs, base) if mo is not None else F(0)) for c in cells]
            else:
                if isinstance(got, numpy.ndarray):
                    run.V('C15', 'remaining_shape', key2, "array for a container", kid)
                    continue
                vals = [got]
                exps = [mo.total(W.msubs, base) if mo is not None else F(0)]
            for j, (gv, ev_) in enumerate(zip(vals, exps)):
                evv = ev_ / mult
                tol = tol_amt / mult + abs(evv) * F(1, 10 ** 10) + F(1, 10 ** 12)
                if abs(F(float(gv)) - evv) > tol:
                    run.V('C15', 'remaining_amount', key2,
                          f"get_amount_remaining({name}, timeframe={tf!r}, unit={unit!r}, mode={mode!r}){'[' + str(cells[j]) + ']' if plate else ''} = {gv!r}, ledger says {float(evv):.9g}", kid)
                    break
            else:
                run.stats['probe:remaining_checked'] += 1
        # the balance identity in - out = remaining(after) - remaining(before) follows from the three comparisons above;
        # it is additionally checked on the library's own answers where all three are available
        o_f = run.call(lambda: R.get_container_flows(obj, timeframe=tf, unit=unit))
        o_b = run.call(lambda: R.get_amount_remaining(obj, timeframe=tf, unit=unit, mode='before'))
        o_a = run.call(lambda: R.get_amount_remaining(obj, timeframe=tf, unit=unit, mode='after'))
        if o_f[0] == o_b[0] == o_a[0] == 'ok' and o_b[1] is not None and o_a[1] is not None:
            try:
                lhs = numpy.asarray(o_f[1]['in'], dtype=float) - numpy.asarray(o_f[1]['out'], dtype=float)
                rhs = numpy.asarray(o_a[1], dtype=float) - numpy.asarray(o_b[1], dtype=float)
                tolb = float(2 * round_tol(d) + 4 * tol_amt / mult) + 1e-9 * float(numpy.max(numpy.abs(rhs)) if rhs.size else 0)
                if lhs.shape == rhs.shape and float(numpy.max(numpy.abs(lhs - rhs))) > tolb:
                    run.V('C15', 'balance', ('balance', kind, base, roles_in(run, name, a, b)),
                          f"{name} over {tf!r} in {unit}: in - out = {lhs.tolist()} but remaining changed by {rhs.tolist()}", kid)
                else:
                    run.stats['probe:balance_checked'] += 1
            except Exception:
                pass


def roles_in(run, name, a, b):
    return '+'.join(sorted(set(roles(run, st, name) for st in run.steps[a:b] if name in st['uses'])))


# --------------------------------------------------------------------------- C17 (recipe part): discarded == reported

def check_discarded(run, rng):
    W, R = run.W, run.recipe
    u = W.units
    kid = run.first_excuse(('C17',))
    for i, st in enumerate(run.steps):
        if st['kind'] != 'remove' or not st['trash']:
            continue
        name = st['to']
        # a stage that contains exactly this step?  otherwise use 'all' only if it is the only remove touching the substance
        for sname, amt in sorted(st['trash'].items()):
            others = [j for j, s2 in enumerate(run.steps) if j != i and (s2['trash'].get(sname) or sname_moves(run, j, sname))]
            ms = W.msubs[sname]
            uu = 'U' if ms.is_enzyme else 'umol'
            mult, base = M.split_unit(uu)
            # timeframe: a named stage consisting of exactly this step if one exists
            tf = None
            for nm, (a, b) in stages_of(run).items():
                if (a, b) == (i, i + 1):
                    tf = nm
            if tf is None:
                continue
            obj = user_object(run, name, False)
            out = run.call(lambda: R.get_substance_used(W.rsubs[sname], timeframe=tf, unit=uu, destinations=[obj]))
            run.stats['probe:discard_stage_query'] += 1
            # net gain of the washed object is -amt, plus discarded amt => 0
            if out[0] == 'ok':
                tol = round_tol(u.precision(uu)) + 16 * W.q_amt(sname) * n_wells(run.snap[i].get(name)) / mult
                if abs(F(float(out[1]))) > tol:
                    run.V('C17', 'discard_not_tracked', ('remove', 'substance_used'),
                          f"stage {tf!r} = remove({name}, ...) only: net change of {name} plus discarded {sname} should be 0, got {out[1]!r} {uu} (discarded {float(amt / mult):.9g})", kid)
            elif out[0] == 'ValueError' and amount_in(run, run.snap[i].get(name), sname) * F(n_wells(run.snap[i].get(name)) + 2, 10 ** 15) > W.q_amt(sname) / 2:
                run.stats['discard_balance_float_noise_unjudged'] += 1     # float noise of the sums exceeds the library's rounding
            elif out[0] == 'ValueError':
                run.V('C17', 'discard_not_tracked', ('remove', 'substance_used', 'ValueError'),
                      f"stage {tf!r} = remove({name}, ...) only: usage of {sname} raised ValueError ({out[1]}); the discarded {float(amt / mult):.9g} {uu} is not reported", kid)
            # with another used object as destination: its own change (none in this step) plus the discarded amount
            others = sorted(n for n in set().union(*[s2['uses'] for s2 in run.steps]) if n != name and (n in run.baked or n in run.handles))
            if others:
                other = others[(i + len(sname)) % len(others)]
                oobj = user_object(run, other, False)
                o3 = run.call(lambda: R.get_substance_used(W.rsubs[sname], timeframe=tf, unit=uu, destinations=[oobj]))
                expv = amt * ms.per_amount(base) / mult
                tol = round_tol(u.precision(uu)) + 16 * W.q_amt(sname) * n_wells(run.snap[i].get(name)) / mult + expv * F(1, 10 ** 10)
                if o3[0] != 'ok' or abs(F(float(o3[1])) - expv) > tol:
                    run.V('C17', 'discard_not_tracked', ('remove', 'substance_used', 'other-destination'),
                          f"stage {tf!r} = remove({name}, ...) only: usage of {sname} w.r.t. destination {other} should be the discarded "
                          f"{float(expv):.9g} {uu}, got {o3[1]!r}", kid)
                else:
                    run.stats['probe:discard_reported'] += 1
            # with no destination at all: what was discarded is all there is ("the trash is always a destination")
            o4 = run.call(lambda: R.get_substance_used(W.rsubs[sname], timeframe=tf, unit=uu, destinations=[]))
            expv = amt * ms.per_amount(base) / mult
            tol = round_tol(u.precision(uu)) + 16 * W.q_amt(sname) * n_wells(run.snap[i].get(name)) / mult + expv * F(1, 10 ** 10)
            if o4[0] != 'ok' or abs(F(float(o4[1])) - expv) > tol:
                run.V('C17', 'discard_not_tracked', ('remove', 'substance_used', 'no-destination'),
                      f"stage {tf!r} = remove({name}, ...) only: usage of {sname} with an empty destination list should be the discarded "
                      f"{float(expv):.9g} {uu}, got {o4[1]!r}", kid)
            o2 = run.call(lambda: R.get_container_flows(obj, timeframe=tf, unit=uu))
            if o2[0] == 'ok' and isinstance(o2[1], dict):
                got = numpy.asarray(o2[1]['out'], dtype=float)
                tot_removed = sum((a_ * W.msubs[n].per_amount(base) for n, a_ in st['trash'].items()), F(0)) / mult
                tol = float(round_tol(u.precision(uu)) * max(1, got.size) + tot_removed * F(1, 10 ** 9) + F(1, 10 ** 9))
                if abs(float(got.sum()) - float(tot_removed)) > tol and got.size == 1:
                    run.V('C17', 'discard_flow', ('remove', 'container_flows'),
                          f"stage {tf!r} = remove({name}, ...): flows out = {got.tolist()} {uu}, discarded {float(tot_removed):.9g}", kid)


def sname_moves(run, j, sname):
    return False


# --------------------------------------------------------------------------- entry points

def check_tracking(run):
    """Right after a successful bake: the checks that need no seeded choice."""
    check_discarded(run, None)
    from . import oracle_instr
    oracle_instr.check_recipe_instructions(run)


def gen_queries(run, rng, n):
    out = []
    for _ in range(n):
        r = rng.random()
        if r < 0.45:
            out.append(gen_used_query(run, rng))
        elif r < 0.92:
            q = gen_flows_query(run, rng)
            if q:
                out.append(q)
        else:
            sname = rng.choice(sorted(run.W.msubs))
            out.append({'c': 'q_additivity', 'sub': sname, 'unit': 'U' if run.W.msubs[sname].is_enzyme else rng.choice(['umol', 'mg', 'uL'])})
    return out


def do_query(run, c):
    if c['c'] == 'q_pre':
        # the user looks at the tracking functions while still writing the recipe; whatever they answer now, the answers
        # after bake are judged as usual (the same questions are asked again then)
        W, R = run.W, run.recipe
        obj = run.handles.get(c['obj'])
        if obj is not None and run.baked is None:
            run.call(lambda: R.get_container_flows(obj, timeframe=c['tf'], unit=c['unit']))
            run.call(lambda: R.get_amount_remaining(obj, timeframe=c['tf'], unit=c['unit']))
            sname = sorted(W.msubs)[0]
            run.call(lambda: R.get_substance_used(W.rsubs[sname], timeframe=c['tf']))
            run.stats['probe:tracking_asked_before_bake'] += 1
        return
    if run.baked is None:
        return
    if not run.eager_ok:
        run.stats['query_without_reference_unjudged'] += 1     # bake accepted a program the eager reference stopped in
        return
    k = c['c']
    if k == 'q_used':
        q_used(run, c)
    elif k == 'q_flows':
        q_flows(run, c)
    elif k == 'q_additivity':
        q_additivity(run, c)


def fixed_panel(run):
    """A fixed set of tracking answers, re-read after every post-bake call (C16: they no longer change)."""
    W, R = run.W, run.recipe
    out = []
    names = sorted(W.msubs)[:3]
    for sname in names:
        o = run.call(lambda: R.get_substance_used(W.rsubs[sname]))
        out.append(('used', sname, o[0], repr(o[1]) if o[0] == 'ok' else ''))
    for name in sorted(run.baked or {})[:4]:
        obj = run.baked[name]
        o = run.call(lambda: R.get_container_flows(obj))
        out.append(('flows', name, o[0], repr(o[1]) if o[0] == 'ok' else ''))
        o = run.call(lambda: R.get_amount_remaining(obj))
        out.append(('remaining', name, o[0], repr(o[1]) if o[0] == 'ok' else ''))
    return tuple(out)
