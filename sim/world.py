"""The simulated bench: registry of real objects (all versions), abstraction to the model, fingerprints."""
from __future__ import annotations

from fractions import Fraction as F

from . import model as M


# --------------------------------------------------------------------------- fingerprints (value-based)

def fp_substance(s):
    return ('S', s.name, s._type, s.mol_weight, s.density, s.specific_activity, s.concentration)


def fp_container(c):
    return ('C', c.name, tuple((s.name, s._type, s.mol_weight, s.density, repr(a)) for s, a in c.contents.items()),
            repr(c.volume), repr(c.max_volume), c.instructions)


def fp_plate(p):
    return ('P', p.name, p.make, tuple(p.row_names), tuple(p.column_names), repr(p.max_volume_per_well),
            p.wells.shape, tuple(fp_container(w) for w in p.wells.flatten()))


def fp_slicer(s):
    return ('L', repr(s.slices), fp_plate(s.plate))


def fingerprint(rep, obj):
    if isinstance(obj, rep.Container):
        return fp_container(obj)
    if isinstance(obj, rep.Plate):
        return fp_plate(obj)
    if isinstance(obj, rep.PlateSlicer):
        return fp_slicer(obj)
    if isinstance(obj, rep.Substance):
        return fp_substance(obj)
    raise TypeError(type(obj))


def fp_diff(a, b, path=''):
    """First difference between two fingerprints, as a short string."""
    if a == b:
        return None
    if isinstance(a, tuple) and isinstance(b, tuple):
        if len(a) != len(b):
            return f"{path}: length {len(a)} != {len(b)}"
        for i, (x, y) in enumerate(zip(a, b)):
            d = fp_diff(x, y, f"{path}/{i}")
            if d:
                return d
    return f"{path}: {a!r} != {b!r}"


# --------------------------------------------------------------------------- world

class Units:
    """Storage-unit bookkeeping of one replica, read from the YAML dict (not from pyplate.config)."""

    def __init__(self, cfg):
        self.p = int(cfg['internal_precision'])
        self.mol_mult = M.PREFIXES[cfg['moles_storage_unit'][:-3]]
        self.vol_mult = M.PREFIXES[cfg['volume_storage_unit'][:-1]]
        self.q = F(1, 10 ** self.p)       # rounding quantum in storage units
        self.precisions = dict(cfg['precisions'])
        self.cfg = cfg

    def precision(self, unit):
        return self.precisions.get(unit, self.precisions['default'])

    def amt_mult(self, msub):
        return F(1) if msub.is_enzyme else self.mol_mult


class World:
    """Substances + registry name -> [versions] of real vessels, with their model twins (abstraction)."""

    def __init__(self, rep, sub_specs):
        self.rep = rep
        self.units = Units(rep.cfg)
        self.sub_specs = [list(s) for s in sub_specs]
        self.msubs = {}
        self.rsubs = {}
        self.real_name = {}    # model key -> the name the library sees (two keys may share one: "twins", same name,
        #                        other molar mass / density / kind - distinct substances for the library too)
        for spec in sub_specs:
            name, kind, mw, rho, act = spec[:5]
            rname = spec[5] if len(spec) > 5 and spec[5] else name
            self.real_name[name] = rname
            if kind == M.SOLID:
                self.msubs[name] = M.MSub(name, kind, mw, rep.cfg['default_solid_density'])
                self.rsubs[name] = rep.Substance.solid(rname, float(mw))
            elif kind == M.LIQUID:
                self.msubs[name] = M.MSub(name, kind, mw, rho)
                self.rsubs[name] = rep.Substance.liquid(rname, float(mw), float(rho))
            elif kind == M.ENZYME:
                # act is a string like '10 U/mg'
                value, num, den = M.parse_concentration(act)
                assert (num, den) == ('U', 'g'), act
                self.msubs[name] = M.MSub(name, kind, None, rep.cfg['default_enzyme_density'], value)
                self.rsubs[name] = rep.Substance.enzyme(rname, act)
            else:
                raise ValueError(kind)
        self.by_real = {}
        for k, s in self.rsubs.items():
            ident = (s.name, s._type, s.mol_weight, s.density)
            if ident in self.by_real:
                raise ValueError(f"substances {k} and {self.by_real[ident]} are one substance for the library")
            self.by_real[ident] = k
        self.keys_of_name = {}
        for k, rn in self.real_name.items():
            self.keys_of_name.setdefault(rn, []).append(k)
        self.model = M.Model(self.msubs, rep.cfg)
        self.sub_fps = {n: fp_substance(s) for n, s in self.rsubs.items()}
        self.reg = {}          # name -> list of real objects (versions)
        self.kind = {}         # name -> 'container' | 'plate'
        self.fps = {}          # (name, version) -> fingerprint at creation
        self.extra_live = []   # (label, object, fingerprint): slices etc. handed out and kept
        self.fresh = set()     # (name, version) whose stored amounts are determined by user decimal strings alone
        self.cur_idx = -1      # index of the event being executed (set by the bench)
        self.created = {}      # (name, version) -> index of the event that produced it

    # ---- registry
    def add(self, name, obj, fresh=False):
        rep = self.rep
        kind = 'plate' if isinstance(obj, rep.Plate) else 'container'
        if name in self.kind and self.kind[name] != kind:
            raise RuntimeError("kind change")
        self.kind[name] = kind
        self.reg.setdefault(name, []).append(obj)
        v = len(self.reg[name]) - 1
        self.fps[(name, v)] = fingerprint(rep, obj)
        self.created[(name, v)] = self.cur_idx
        if fresh:
            self.fresh.add((name, v))
        return v

    def names(self, kind=None):
        return [n for n in self.reg if kind is None or self.kind[n] == kind]

    def resolve(self, name, ver):
        """-> (object, version actually used) ; ver is taken modulo the existing versions, -1 = latest."""
        vs = self.reg.get(name)
        if not vs:
            return None, None
        if ver is None or ver == -1:
            ver = len(vs) - 1
        else:
            ver = ver % len(vs)
        return vs[ver], ver

    def check_immutability(self):
        """-> list of (label, diff) for every registered object whose fingerprint changed."""
        bad = []
        rep = self.rep
        for (name, v), fp in self.fps.items():
            now = fingerprint(rep, self.reg[name][v])
            if now != fp:
                bad.append((f"{name}@{v}", fp_diff(fp, now)))
        for label, obj, fp in self.extra_live:
            now = fingerprint(rep, obj)
            if now != fp:
                bad.append((label, fp_diff(fp, now)))
        for n, s in self.rsubs.items():
            if fp_substance(s) != self.sub_fps[n]:
                bad.append((f"substance {n}", 'changed'))
        return bad

    # ---- abstraction
    def key_of(self, s):
        """model key of a library Substance (identity as the library defines it: name, kind, molar mass, density)"""
        k = self.by_real.get((s.name, s._type, s.mol_weight, s.density))
        if k is None:
            raise KeyError(f"unknown substance {s.name} ({s._type}, {s.mol_weight}, {s.density})")
        return k

    def key_of_name(self, rname):
        """model key for a name read in a text; None if no or several substances carry it"""
        ks = self.keys_of_name.get(rname, ())
        return ks[0] if len(ks) == 1 else None

    def alpha_container(self, c) -> M.MVessel:
        u = self.units
        cap = None if c.max_volume == float('inf') else F(c.max_volume) * u.vol_mult
        v = M.MVessel(c.name, cap)
        for s, a in c.contents.items():
            k = self.key_of(s)
            v.contents[k] = F(a) * u.amt_mult(self.msubs[k])
        return v

    def alpha_plate(self, p) -> M.MPlate:
        u = self.units
        cap = None if p.max_volume_per_well == float('inf') else F(p.max_volume_per_well) * u.vol_mult
        wells = [[self.alpha_container(p.wells[r, c]) for c in range(p.n_columns)] for r in range(p.n_rows)]
        return M.MPlate(p.name, cap, list(p.row_names), list(p.column_names), wells)

    def alpha(self, obj):
        if isinstance(obj, self.rep.Plate):
            return self.alpha_plate(obj)
        return self.alpha_container(obj)

    def stored_volume(self, c) -> F:
        return F(c.volume) * self.units.vol_mult

    # ---- tolerances (DESIGN §3), all in model base units
    def q_amt(self, sname) -> F:
        """Rounding quantum of a stored amount, in mol | U."""
        return self.units.q * self.units.amt_mult(self.msubs[sname])

    def q_vol(self) -> F:
        return self.units.q * self.units.vol_mult

    def slack_total(self, mv: M.MVessel, base_unit, extra=()) -> F:
        """How far a total in `base_unit` may be off because each stored amount carries one rounding quantum."""
        names = set(mv.contents) | set(extra)
        return sum((self.q_amt(n) * self.msubs[n].per_amount(base_unit) for n in names), F(0))

    def tol_volume(self, mv: M.MVessel, n_round=4, extra=()) -> F:
        """Tolerance for stored volume vs sum of content volumes."""
        k = len(set(mv.contents) | set(extra))
        return 5 * n_round * (self.q_vol() * (k + 1) + self.slack_total(mv, 'L', extra)) + F(1, 10 ** 12) * abs(self.model.volume(mv))
