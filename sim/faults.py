"""Fault injector: exceptions at arbitrary instants inside library operations (DESIGN §2.6).

Seams: sys.settrace line events restricted to frames of /repo/pyplate/*.py and stdlib copy.py; the module
attributes pyplate.pyplate.deepcopy / copy (the names the code imported) wrapped by a pass-through.
Nothing in /repo is modified.
"""
from __future__ import annotations

import copy as _copy_mod
import os
import sys

from . import env
from .world import fingerprint

COPY_FILE = os.path.abspath(_copy_mod.__file__)
EXC = {'KeyboardInterrupt': KeyboardInterrupt, 'MemoryError': MemoryError}


class Injected(BaseException):
    """Marker mixed into injected exceptions so that they can be told apart from the library's own."""


class InjectedKeyboardInterrupt(KeyboardInterrupt, Injected):
    pass


class InjectedMemoryError(MemoryError, Injected):
    pass


INJ = {'KeyboardInterrupt': InjectedKeyboardInterrupt, 'MemoryError': InjectedMemoryError}


class LineTracer:
    """Counts line events in library frames; raises `exc` at the k-th one (k=None: only count)."""

    def __init__(self, k=None, exc='KeyboardInterrupt', include_copy=True):
        self.include_copy = include_copy
        self.k = k
        self.exc = exc
        self.n = 0
        self.fired_at = None
        self.prefix = os.path.join(os.path.abspath(env.REPO), 'pyplate') + os.sep

    def _global(self, frame, event, arg):
        fn = frame.f_code.co_filename
        if fn.startswith(self.prefix) or (self.include_copy and fn == COPY_FILE):
            return self._local
        return None

    def _local(self, frame, event, arg):
        if event == 'line':
            self.n += 1
            if self.k is not None and self.n == self.k and self.fired_at is None:
                self.fired_at = (os.path.basename(frame.f_code.co_filename), frame.f_lineno, frame.f_code.co_name)
                raise INJ[self.exc](f"injected at line event {self.k}")
        return self._local

    def run(self, fn):
        old = sys.gettrace()
        sys.settrace(self._global)
        try:
            return fn()
        finally:
            sys.settrace(old)


class DeepcopyFault:
    """Pass-through wrapper around the deepcopy/copy names the library imported; the j-th call raises MemoryError."""

    def __init__(self, rep, j=None):
        self.rep = rep
        self.j = j
        self.n = 0
        self.fired = False

    def __enter__(self):
        core = self.rep.core
        self.orig = core.deepcopy
        orig = self.orig

        def wrapped(x, memo=None, _nil=[]):
            self.n += 1
            if self.j is not None and self.n == self.j and not self.fired:
                self.fired = True
                raise InjectedMemoryError(f"injected in deepcopy call {self.j}")
            return orig(x, memo) if memo is not None else orig(x)
        core.deepcopy = wrapped
        return self

    def __exit__(self, *a):
        self.rep.core.deepcopy = self.orig


def result_fp(rep, out):
    """Fingerprint of whatever an operation returned (or of the exception class)."""
    if out[0] != 'ok':
        return ('exc', out[0])
    res = out[1]
    if isinstance(res, tuple):
        return ('ok',) + tuple(fingerprint(rep, o) for o in res)
    if isinstance(res, dict):
        return ('ok',) + tuple((k, fingerprint(rep, v)) for k, v in res.items())
    return ('ok', fingerprint(rep, res))


def config_fp(rep):
    return repr(sorted((k, repr(v)) for k, v in vars(rep.config).items()))


def call_catching(fn):
    """-> (status, value): 'ok' | exception class name; injected exceptions are reported as 'injected:<kind>'."""
    try:
        return ('ok', fn())
    except Injected as e:
        return ('injected:' + type(e).__mro__[1].__name__, e)
    except BaseException as e:     # noqa
        if isinstance(e, (SystemExit, GeneratorExit)):
            raise
        return (type(e).__name__, e)


def build_call(bench, ev):
    """The raw library call of a bench event, without oracles: -> (thunk, list of argument objects) or None."""
    rep, W = bench.rep, bench.world
    op = ev['op']
    if op == 'transfer':
        s, d = bench.operand(ev['src']), bench.operand(ev['dst'])
        if s is None or d is None or (s.kind == 'plate' and s.cells is None) or (d.kind == 'plate' and d.cells is None):
            return None
        q = ev['q']
        if d.kind == 'container':
            return (lambda: rep.Container.transfer(s.real, d.real, q)), [s.real, d.real]
        return (lambda: rep.Plate.transfer(s.real, d.real, q)), [s.real, d.real]
    if op == 'remove':
        t = bench.operand(ev['tgt'])
        if t is None or (t.kind == 'plate' and t.cells is None):
            return None
        from . import model as M
        what = ev['what']
        real_what = W.rsubs[what] if what in W.rsubs else M.KIND_CODE[what]
        return (lambda: t.real.remove(real_what)), [t.real]
    if op == 'fill_to':
        t = bench.operand(ev['tgt'])
        if t is None or (t.kind == 'plate' and t.cells is None):
            return None
        return (lambda: t.real.fill_to(W.rsubs[ev['solvent']], ev['q'])), [t.real]
    if op == 'dilute':
        t = bench.operand(ev['tgt'])
        if t is None or t.kind != 'container':
            return None
        kw = {'name': ev['name']} if ev.get('name') else {}
        return (lambda: t.real.dilute(W.rsubs[ev['solute']], ev['conc'], W.rsubs[ev['solvent']], **kw)), [t.real]
    if op == 'new_container':
        kwargs = {}
        if ev.get('cap') is not None:
            kwargs['max_volume'] = ev['cap']
        if ev.get('contents'):
            kwargs['initial_contents'] = [(W.rsubs[s], q) for s, q in ev['contents']]
        return (lambda: rep.Container(ev['name'], **kwargs)), []
    if op == 'new_plate':
        return (lambda: rep.Plate(ev['name'], ev['cap'], rows=ev['rows'], columns=ev['cols'])), []
    if op == 'solution':
        solutes = [W.rsubs[n] for n in ev['solutes']]
        solv = ev['solvent']
        args = []
        if isinstance(solv, list):
            sop = bench.operand(solv)
            if sop is None or sop.kind != 'container':
                return None
            solvent = sop.base
            args.append(solvent)
        else:
            solvent = W.rsubs[solv]
        sol_arg = solutes[0] if len(solutes) == 1 and not ev.get('aslist') else solutes
        kwargs = dict(ev['kwargs'])
        return (lambda: rep.Container.create_solution(sol_arg, solvent, ev['name'], **kwargs)), args
    if op == 'solution_from':
        sop = bench.operand(ev['src'])
        if sop is None or sop.kind != 'container':
            return None
        solv = ev['solvent']
        args = [sop.base]
        if isinstance(solv, list):
            vop = bench.operand(solv)
            if vop is None or vop.kind != 'container':
                return None
            solvent = vop.base
            args.append(solvent)
        else:
            solvent = W.rsubs[solv]
        return (lambda: rep.Container.create_solution_from(sop.base, W.rsubs[ev['solute']], ev['conc'], solvent,
                                                           ev['q'], ev['name'])), args
    return None


def check_after_fault(bench, ev, arg_fps, args, cfg_before, label, kind):
    """C04 invariants after a faulted (or dry) execution."""
    rep = bench.rep
    op = ev['op']
    bad = bench.world.check_immutability()
    for lab, diff in bad:
        bench.V('C04', 'mutated_after_fault', (op, kind, 'live-object'), f"{label}: {lab} changed: {diff}")
    if bad:
        bench.rebaseline()
    for obj, fp in zip(args, arg_fps):
        now = fingerprint(rep, obj)
        if now != fp:
            from .world import fp_diff
            bench.V('C04', 'mutated_after_fault', (op, kind, 'argument'), f"{label}: argument {type(obj).__name__} changed: {fp_diff(fp, now)}")
    if config_fp(rep) != cfg_before:
        bench.V('C04', 'config_changed', (op, kind), f"{label}: module-level config changed")


def step_with_fault(bench, ev, fault):
    """Execute one bench event under a fault plan, then execute it normally (recovery).

    fault: {"kind": "line", "k": int | "frac": float in (0,1], "exc": name} | {"kind": "deepcopy", "j": int | "frac": float}
    The absolute instant is resolved against the dry run and written back into `fault` ("k"/"j"), so that a replay
    file carries the exact instant.
    """
    rep = bench.rep
    built = build_call(bench, ev)
    if built is None:
        return bench.step(ev)
    thunk, args = built
    arg_fps = [fingerprint(rep, a) for a in args]
    cfg_before = config_fp(rep)
    # 1. dry run under the counting tracer
    if fault['kind'] == 'line':
        tr = LineTracer()
        out0 = tr.run(lambda: call_catching(thunk))
        n = tr.n
    else:
        with DeepcopyFault(rep) as df:
            out0 = call_catching(thunk)
        n = df.n
    fp0 = result_fp(rep, out0)
    check_after_fault(bench, ev, arg_fps, args, cfg_before, 'dry run', 'none')
    if n == 0:
        bench.stats['fault:none_possible'] += 1
        return bench.step(ev)
    key = 'k' if fault['kind'] == 'line' else 'j'
    if key not in fault:
        fault[key] = max(1, min(n, int(round(fault['frac'] * n)) or 1))
    k = fault[key]
    if k > n:
        k = fault[key] = n
    fault['n'] = n
    # 2. faulted run (fresh operands: slices are rebuilt so that the dry run cannot mask anything)
    built = build_call(bench, ev)
    thunk, args = built
    arg_fps = [fingerprint(rep, a) for a in args]
    if fault['kind'] == 'line':
        tr = LineTracer(k, fault.get('exc', 'KeyboardInterrupt'))
        out1 = tr.run(lambda: call_catching(thunk))
        fired = tr.fired_at is not None
        kindname = 'line-' + fault.get('exc', 'KeyboardInterrupt')
    else:
        with DeepcopyFault(rep, k) as df:
            out1 = call_catching(thunk)
        fired = df.fired
        kindname = 'deepcopy-MemoryError'
    if fired:
        bench.stats['fault:' + kindname] += 1
        quint = min(4, (k - 1) * 5 // max(n, 1))
        bench.sig.add(('fault', ev['op'], kindname, quint, out0[0] == 'ok'))
        if not out1[0].startswith('injected:'):
            bench.stats['fault:absorbed'] += 1
    else:
        bench.stats['fault:not_fired'] += 1
    check_after_fault(bench, ev, arg_fps, args, cfg_before, f"fault {kindname}@{k}/{n}", kindname)
    # 3. recovery: the same operation without a fault gives the same result as the dry run
    built = build_call(bench, ev)
    thunk, args = built
    out2 = call_catching(thunk)
    fp2 = result_fp(rep, out2)
    if fp2 != fp0:
        from .world import fp_diff
        bench.V('C04', 'recovery_differs', (ev['op'], kindname),
                f"after {kindname}@{k}/{n} the same call gives a different result: {fp_diff(fp0, fp2)}")
    else:
        bench.stats['probe:recovery_identical'] += 1
    # 4. the normal step with all oracles (advances the registry)
    return bench.step(ev)
