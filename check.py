#!/venv/bin/python
"""Entry point of the deterministic-simulation checks for ekwan/PyPlate.

  check.py <Cxx> [--tier quick|thorough] [--seed N] [--runs N] [--workers N]
  check.py <Cxx> --replay <file>
  check.py --selfcheck

Exit 0: the property held on everything explored (KNOWN-FINDING lines allowed).
Exit 1: VIOLATION property=<id> replay=<path> printed for a violation not listed in known_findings.json.
Exit 2: harness error (never reported as success or as a violation).
"""
from __future__ import annotations

import argparse
import json
import os
import subprocess
import sys
import time
import traceback
from collections import Counter

HERE = os.path.dirname(os.path.abspath(__file__))
sys.path.insert(0, HERE)
os.chdir(HERE)

from sim import env  # noqa: E402

BUDGET = {   # runs per tier
    'quick': {'default': 1600, 'C04': 640, 'C07': 1600, 'C08': 1600, 'C16': 3200, 'C18': 800},
    'thorough': {'default': 40000, 'C04': 9600, 'C08': 32000, 'C16': 64000, 'C18': 6400},
}


def n_runs_for(prop, tier):
    t = BUDGET[tier]
    return t.get(prop, t['default'])


def main():
    ap = argparse.ArgumentParser()
    ap.add_argument('prop', nargs='?')
    ap.add_argument('--tier', default=os.environ.get('VERIF_TIER', 'quick'), choices=['quick', 'thorough'])
    ap.add_argument('--seed', type=int, default=None)
    ap.add_argument('--runs', type=int, default=None)
    ap.add_argument('--workers', type=int, default=None)
    ap.add_argument('--replay')
    ap.add_argument('--selfcheck', action='store_true')
    ap.add_argument('--no-shrink', action='store_true')
    ap.add_argument('--no-verify-replay', action='store_true')
    ap.add_argument('--evidence', default=None)
    args = ap.parse_args()
    env.ensure_env()
    if args.selfcheck:
        return selfcheck()
    if not args.prop:
        ap.error("property id required")
    seed = args.seed
    if seed is None:
        seed = int(os.environ.get('VERIF_SEED', '0') or 0) or None
    from sim.common import DEFAULT_SEED
    if seed is None:
        seed = DEFAULT_SEED
    try:
        if args.replay:
            return do_replay(args.prop, args.replay)
        return do_check(args.prop, args.tier, seed, args)
    except SystemExit:
        raise
    except Exception:
        traceback.print_exc()
        print(f"HARNESS-ERROR property={args.prop}")
        return 2


def selfcheck():
    import importlib
    for m in ('numpy', 'pandas', 'yaml', 'tabulate'):
        importlib.import_module(m)
    rep = env.load_replica()
    assert rep.core.__file__.startswith(env.REPO), rep.core.__file__
    for f in ('MANIFEST.json', 'known_findings.json', 'properties.jsonl'):
        assert os.path.exists(os.path.join(HERE, f)), f
    json.load(open(os.path.join(HERE, 'MANIFEST.json')))
    os.makedirs(os.path.join(HERE, 'evidence'), exist_ok=True)
    print("selfcheck ok: pyplate from", rep.core.__file__)
    return 0


def print_violation_details(v, record=None):
    print(f"  clause={v['clause']} key={v['key']} event#{v['event']}: {v['detail']}")
    if record is not None and 'events' in record and 0 <= v['event'] < len(record['events']):
        print(f"  event: {json.dumps(record['events'][v['event']], sort_keys=True)}")


def do_replay(prop, path):
    from sim import engines
    with open(path) as fh:
        data = json.load(fh)
    record = data['record'] if 'record' in data else data
    eng = engines.engine_for(prop, record)
    known = eng.load_known()
    res = eng.run_replay(record, known=known)
    own = [v for v in res.violations if v.prop == prop and v.known is None]
    exp = data.get('violation')
    from sim.common import digest
    print(f"replay of {path}: {len(record.get('events', ()))} events, {len(own)} violation(s) of {prop}, "
          f"digest={digest([res.log, [v.to_json() for v in res.violations]])[:16]}")
    hit = False
    for v in own:
        print_violation_details(v.to_json(), record)
        if exp is None or list(v.fkey()) == list(exp['fkey']):
            hit = True
    for v in res.violations:
        if v.known is not None and v.prop == prop:
            print(f"KNOWN-FINDING: property={prop} {known.findings[v.known]['what_fails']} [{v.known}]")
            break
    print("REPLAY-RESULT " + json.dumps({'violations': [dict(v.to_json(), fkey=list(v.fkey())) for v in own]}, sort_keys=True))
    if own and hit:
        print(f"VIOLATION property={prop} replay={path}")
        return 1
    if own:
        print("note: violations present but not the recorded one")
        print(f"VIOLATION property={prop} replay={path}")
        return 1
    return 0


class _FreshViolation:
    """A violation as reported by a replay in an interpreter of its own."""

    def __init__(self, d):
        self.d = d
        self.event = d['event']

    def to_json(self):
        return self.d


def replay_fresh(prop, record, fkey, scratch_name='candidate'):
    """Replay `record` in a fresh interpreter -> the violation with finding key `fkey` it reports, or None."""
    path = os.path.join(env.scratch_dir(), f"{scratch_name}-{os.getpid()}.json")
    with open(path, 'w') as fh:
        json.dump({'property': prop, 'record': record}, fh)
    try:
        cp = subprocess.run([sys.executable, os.path.join(HERE, 'check.py'), prop, '--replay', path],
                            capture_output=True, text=True, timeout=600)
    finally:
        try:
            os.remove(path)
        except OSError:
            pass
    for ln in cp.stdout.splitlines():
        if ln.startswith('REPLAY-RESULT '):
            for d in json.loads(ln[len('REPLAY-RESULT '):])['violations']:
                if list(d['fkey']) == list(fkey):
                    return _FreshViolation(d)
    return None


def do_check(prop, tier, seed, args):
    from sim import engines, runner, shrink, evidence
    t0 = time.time()
    eng = engines.engine_for(prop)
    known = eng.load_known()
    n_runs = args.runs or n_runs_for(prop, tier)
    print(f"check {prop} tier={tier} seed={seed} runs={n_runs} repo={env.REPO} hashseed={os.environ.get('PYTHONHASHSEED')}")
    sys.stdout.flush()
    violations = []     # (violation json, record)
    known_lines = []
    # ---- probe runs: committed witnesses of known findings of this property
    for f in known.for_property(prop):
        wpath = os.path.join(HERE, f['witness'])
        with open(wpath) as fh:
            wdata = json.load(fh)
        wrec = wdata['record'] if 'record' in wdata else wdata
        weng = engines.engine_for(prop, wrec)
        res = weng.run_replay(wrec, known=known)
        still = [v for v in res.violations if v.known == f['id']]
        if still:
            line = f"KNOWN-FINDING: property={prop} {f['what_fails']} [{f['id']}]"
            if line not in known_lines:
                known_lines.append(line)
        for v in res.violations:
            if v.known is None and v.prop == prop:
                violations.append((v.to_json(), wrec))
    # ---- regression probes: witnesses of repaired defects (a fixed entry suppresses nothing)
    n_regress = 0
    for fx in known.fixed:
        if prop not in fx.get('replayed_by', [fx['property']]):
            continue
        with open(os.path.join(HERE, fx['witness'])) as fh:
            wdata = json.load(fh)
        wrec = wdata['record'] if 'record' in wdata else wdata
        weng = engines.engine_for(prop, wrec)
        res = weng.run_replay(wrec, known=known)
        n_regress += 1
        for v in res.violations:
            if v.known is None and v.prop == prop:
                violations.append((v.to_json(), wrec))
    # ---- the seeded search
    results, wall_batch = runner.run_batch(prop, seed, n_runs, tier, workers=args.workers)
    herr = [r for r in results if 'harness_error' in r]
    if herr:
        print(herr[0]['harness_error'])
        print(f"HARNESS-ERROR property={prop} runs_failed={len(herr)} first_run={herr[0]['run']}")
        return 2
    for r in results:
        for v in r['violations']:
            violations.append((v, r['record']))
    # ---- group by finding key, shrink, write replay files
    by_key = {}
    for v, rec in violations:
        by_key.setdefault(tuple([v['property'], v['clause']] + list(v['key'])), []).append((v, rec))
    replay_dir = os.path.join(HERE, 'replays')
    lines = []
    n_keys_reported = 0
    for fkey, items in sorted(by_key.items(), key=lambda kv: (-len(kv[1]), kv[0])):
        if n_keys_reported >= int(os.environ.get('VERIF_MAX_REPORTS', '6')):
            break
        n_keys_reported += 1
        v, rec = min(items, key=lambda it: len(it[1].get('events', ())))
        reng = engines.engine_for(prop, rec)
        small, sv, used = (rec, None, 0)
        if not args.no_shrink:
            small, sv, used = shrink.shrink(reng, rec, fkey, known, budget=int(os.environ.get('VERIF_SHRINK_BUDGET', '250')))
        if sv is None:
            small, vj = rec, v
        else:
            vj = sv.to_json()
        os.makedirs(replay_dir, exist_ok=True)
        from sim.common import digest
        name = f"{prop}-{digest(list(fkey))[:10]}-seed{seed}-run{rec.get('run', 'w')}.json"
        path = os.path.join(replay_dir, name)
        with open(path, 'w') as fh:
            json.dump({'property': prop, 'violation': {'fkey': list(fkey), 'detail': vj['detail'], 'event': vj['event']},
                       'seed': seed, 'occurrences_in_batch': len(items), 'shrink_replays': used,
                       'record': small}, fh, indent=1, sort_keys=True)
        verified = 'unverified'
        if not args.no_verify_replay:
            fv = replay_fresh(prop, small, fkey)
            verified = 'reproduced-in-fresh-interpreter' if fv is not None else 'NOT-reproduced'
            if fv is None and sv is not None:
                # The in-process minimisation was misled: the violation depends on state outside the record that this
                # worker process had accumulated (something the library keeps per process).  Go back to unshrunk records
                # and minimise with every candidate replayed in an interpreter of its own.
                bysize = sorted(items, key=lambda it: len(it[1].get('events', ())))
                # records that carry a second session / a second recipe hold such state inside the run: try them first
                multi = [it for it in bysize if it[1].get('chain') or it[1].get('session2')]
                for _, orig in multi[:4] + bysize[:2]:
                    if replay_fresh(prop, orig, fkey) is None:
                        continue
                    budget = int(os.environ.get('VERIF_FRESH_SHRINK_BUDGET', '40'))
                    small, sv2, used2 = shrink.shrink(reng, orig, fkey, known, budget=budget,
                                                      tester=lambda r: replay_fresh(prop, r, fkey))
                    used += used2
                    vj = sv2.to_json() if sv2 is not None else v
                    with open(path, 'w') as fh:
                        json.dump({'property': prop, 'violation': {'fkey': list(fkey), 'detail': vj['detail'], 'event': vj['event']},
                                   'seed': seed, 'occurrences_in_batch': len(items), 'shrink_replays': used,
                                   'minimised': 'with every candidate replayed in a fresh interpreter', 'record': small},
                                  fh, indent=1, sort_keys=True)
                    verified = 'reproduced-in-fresh-interpreter (minimised out of process)'
                    break
        print(f"violation {fkey} x{len(items)} (shrunk to {len(small.get('events', ()))} events, {used} replays, {verified})")
        print_violation_details(vj, small)
        lines.append(f"VIOLATION property={prop} replay={path}")
    for line in known_lines:
        print(line)
    wall = time.time() - t0
    ev_path = args.evidence or os.path.join(HERE, 'evidence', f'{prop}.json')
    evidence.write(prop, tier, seed, results, wall, wall_batch, len(by_key), known, known_lines, ev_path, eng)
    for line in lines:
        print(line)
    n_ev = sum(r['n_events'] for r in results)
    print(f"{prop}: {len(results)} runs, {n_ev} events, {len(by_key)} distinct violation key(s), {wall:.1f}s")
    return 1 if lines else 0


if __name__ == '__main__':
    sys.exit(main())
